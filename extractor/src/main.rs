//! hqx — mechanical extractor/normaliser of real HyperQueue functions for Verus.
//!
//! Input  (argv[1]): JSON  { "repo": "/repo", "requests": [ {file, kind, path, panics, opts...} ] }
//! Output (stdout) : JSON  { "items": [ {path, kind, file, line, impl_header, sig, ret, body, text,
//!                                      loops, applied, error} ] }
//!
//! The extractor never invents executable code: every emitted statement is either the
//! pretty-printed AST of the real source or the definitional expansion of a construct listed in
//! the normalisation catalogue (DESIGN.md §3.2). Every rule application is logged in `applied`.

use proc_macro2::{Span, TokenStream};
use quote::{quote, ToTokens};
use serde_json::{json, Value};
use std::collections::HashMap;
use syn::parse::{Parse, ParseStream, Parser};
use syn::punctuated::Punctuated;
use syn::spanned::Spanned;
use syn::visit_mut::{self, VisitMut};
use syn::*;

mod norm;
use norm::Norm;

fn last_seg(p: &Path) -> String {
    p.segments.last().map(|s| s.ident.to_string()).unwrap_or_default()
}

fn type_name(t: &Type) -> String {
    match t {
        Type::Path(tp) => last_seg(&tp.path),
        Type::Reference(r) => type_name(&r.elem),
        Type::Paren(p) => type_name(&p.elem),
        _ => String::new(),
    }
}

pub fn unparse_items(items: Vec<Item>) -> String {
    let f = File {
        shebang: None,
        attrs: vec![],
        items,
    };
    prettyplease::unparse(&f)
}

fn print_block(b: &Block) -> String {
    let item: Item = parse_quote! { fn __hq_body() #b };
    let s = unparse_items(vec![item]);
    let idx = s.find('{').unwrap();
    s[idx..].trim_end().to_string()
}

fn print_type(t: &Type) -> String {
    let item: Item = parse_quote! { type __T = #t; };
    let s = unparse_items(vec![item]);
    let s = s.trim();
    let s = s.strip_prefix("type __T =").unwrap_or(s).trim();
    s.strip_suffix(';').unwrap_or(s).trim().to_string()
}

struct TypeMapper;
impl VisitMut for TypeMapper {
    fn visit_type_mut(&mut self, t: &mut Type) {
        visit_mut::visit_type_mut(self, t);
        if let Some(nt) = norm::map_vec_type(t) {
            *t = nt;
        }
    }
}

fn strip_vis_fields(fields: &mut Fields) {
    TypeMapper.visit_fields_mut(fields);
    match fields {
        Fields::Named(n) => {
            for f in n.named.iter_mut() {
                f.vis = parse_quote!(pub);
                f.attrs.clear();
            }
        }
        Fields::Unnamed(n) => {
            for f in n.unnamed.iter_mut() {
                f.vis = parse_quote!(pub);
                f.attrs.clear();
            }
        }
        Fields::Unit => {}
    }
}

struct Found<'a> {
    kind: &'static str,
    item: FoundItem<'a>,
}

enum FoundItem<'a> {
    Fn(&'a ItemFn),
    Method(&'a ItemImpl, &'a ImplItemFn),
    Struct(&'a ItemStruct),
    Enum(&'a ItemEnum),
    Const(&'a ItemConst),
    ImplConst(&'a ItemImpl, &'a ImplItemConst),
    Type(&'a ItemType),
    TraitMethod(&'a ItemTrait, &'a TraitItemFn),
    Trait(&'a ItemTrait),
}

fn is_cfg_test(attrs: &[Attribute]) -> bool {
    attrs.iter().any(|a| {
        a.path().is_ident("cfg") && a.meta.to_token_stream().to_string().contains("test")
    })
}

fn find_item<'a>(items: &'a [Item], kind: &str, path: &str, trait_name: Option<&str>) -> Option<Found<'a>> {
    let parts: Vec<&str> = path.split("::").collect();
    for it in items {
        match it {
            Item::Mod(m) if !is_cfg_test(&m.attrs) => {
                if let Some((_, inner)) = &m.content {
                    // allow "modname::item" or transparent search
                    if parts.len() > 1 && m.ident == parts[0] {
                        let rest = parts[1..].join("::");
                        if let Some(f) = find_item(inner, kind, &rest, trait_name) {
                            return Some(f);
                        }
                    }
                }
            }
            Item::Fn(f) if kind == "fn" && parts.len() == 1 && f.sig.ident == parts[0] => {
                if is_cfg_test(&f.attrs) {
                    continue;
                }
                return Some(Found { kind: "fn", item: FoundItem::Fn(f) });
            }
            Item::Impl(im) if (kind == "fn" || kind == "const") && parts.len() == 2 => {
                if type_name(&im.self_ty) != parts[0] {
                    continue;
                }
                let tn = im.trait_.as_ref().map(|(_, p, _)| last_seg(p));
                if let Some(want) = trait_name {
                    if tn.as_deref() != Some(want) {
                        continue;
                    }
                }
                for ii in &im.items {
                    match ii {
                        ImplItem::Fn(m) if kind == "fn" && m.sig.ident == parts[1] => {
                            if is_cfg_test(&m.attrs) {
                                continue;
                            }
                            return Some(Found { kind: "fn", item: FoundItem::Method(im, m) });
                        }
                        ImplItem::Const(c) if kind == "const" && c.ident == parts[1] => {
                            return Some(Found { kind: "const", item: FoundItem::ImplConst(im, c) });
                        }
                        _ => {}
                    }
                }
            }
            Item::Trait(t) if kind == "fn" && parts.len() == 2 && t.ident == parts[0] => {
                for ti in &t.items {
                    if let TraitItem::Fn(m) = ti {
                        if m.sig.ident == parts[1] && m.default.is_some() {
                            return Some(Found { kind: "fn", item: FoundItem::TraitMethod(t, m) });
                        }
                    }
                }
            }
            Item::Trait(t) if kind == "trait" && parts.len() == 1 && t.ident == parts[0] => {
                return Some(Found { kind: "trait", item: FoundItem::Trait(t) });
            }
            Item::Struct(s) if kind == "struct" && parts.len() == 1 && s.ident == parts[0] => {
                return Some(Found { kind: "struct", item: FoundItem::Struct(s) });
            }
            Item::Enum(s) if kind == "enum" && parts.len() == 1 && s.ident == parts[0] => {
                return Some(Found { kind: "enum", item: FoundItem::Enum(s) });
            }
            Item::Const(s) if kind == "const" && parts.len() == 1 && s.ident == parts[0] => {
                return Some(Found { kind: "const", item: FoundItem::Const(s) });
            }
            Item::Type(s) if kind == "type" && parts.len() == 1 && s.ident == parts[0] => {
                return Some(Found { kind: "type", item: FoundItem::Type(s) });
            }
            _ => {}
        }
    }
    None
}

fn sig_strings(sig: &Signature) -> (String, String, Value) {
    // returns (signature text without return type and without body, return type text, shape)
    let mut s = sig.clone();
    let ret = match &s.output {
        ReturnType::Default => String::new(),
        ReturnType::Type(_, t) => print_type(t),
    };
    s.output = ReturnType::Default;
    let was_async = s.asyncness.is_some();
    s.asyncness = None;
    let wh = s.generics.where_clause.take();
    let item: Item = Item::Fn(ItemFn {
        attrs: vec![],
        vis: Visibility::Inherited,
        sig: s.clone(),
        block: Box::new(parse_quote!({})),
    });
    let txt = unparse_items(vec![item]);
    let txt = txt.trim();
    let txt = txt.strip_suffix("{}").unwrap_or(txt).trim().to_string();
    let wh_txt = wh.map(|w| w.to_token_stream().to_string()).unwrap_or_default();
    let receiver = match sig.inputs.first() {
        Some(FnArg::Receiver(r)) => {
            if r.reference.is_some() {
                if r.mutability.is_some() { "&mut self" } else { "&self" }
            } else {
                "self"
            }
        }
        _ => "",
    };
    let shape = json!({
        "arity": sig.inputs.len(),
        "receiver": receiver,
        "has_ret": !ret.is_empty(),
        "async": was_async,
        "where": wh_txt,
        "params": sig.inputs.iter().map(|a| match a {
            FnArg::Receiver(_) => "self".to_string(),
            FnArg::Typed(pt) => pt.pat.to_token_stream().to_string(),
        }).collect::<Vec<_>>(),
    });
    (txt, ret, shape)
}

fn impl_header(im: &ItemImpl) -> String {
    let mut h = im.clone();
    h.items.clear();
    h.attrs.clear();
    let s = unparse_items(vec![Item::Impl(h)]);
    let s = s.trim();
    let s = s.strip_suffix("{}").unwrap_or(s).trim();
    s.to_string()
}

/// N11e: the content of the first brace group that follows the (whitespace-free) anchor text at some nesting level of `ts`
fn find_group(ts: TokenStream, anchor: &str) -> Option<TokenStream> {
    let toks: Vec<proc_macro2::TokenTree> = ts.into_iter().collect();
    let mut concat = String::new();
    let mut starts = vec![];
    for t in &toks {
        starts.push(concat.len());
        let s: String = t.to_string().chars().filter(|c| !c.is_whitespace()).collect();
        concat.push_str(&s);
    }
    // the anchor has to cover whole tokens of this level
    for i in 0..toks.len() {
        if concat[starts[i]..].starts_with(anchor) {
            let end = starts[i] + anchor.len();
            if let Some(j) = starts.iter().position(|s| *s == end) {
                if let proc_macro2::TokenTree::Group(g) = &toks[j] {
                    if g.delimiter() == proc_macro2::Delimiter::Brace {
                        return Some(g.stream());
                    }
                }
            }
        }
    }
    for t in toks {
        if let proc_macro2::TokenTree::Group(g) = t {
            if let Some(r) = find_group(g.stream(), anchor) {
                return Some(r);
            }
        }
    }
    None
}

fn has_await(b: &Block) -> bool {
    struct V(bool);
    impl<'ast> syn::visit::Visit<'ast> for V {
        fn visit_expr_await(&mut self, _: &'ast ExprAwait) {
            self.0 = true;
        }
    }
    let mut v = V(false);
    syn::visit::Visit::visit_block(&mut v, b);
    v.0
}

fn filter_derives(attrs: &[Attribute], keep: &[String]) -> Vec<String> {
    let mut out = vec![];
    for a in attrs {
        if a.path().is_ident("derive") {
            if let Ok(list) = a.parse_args_with(Punctuated::<Path, Token![,]>::parse_terminated) {
                for p in list {
                    let n = last_seg(&p);
                    if keep.iter().any(|k| *k == n) {
                        out.push(n);
                    }
                }
            }
        }
    }
    out
}

fn process(repo: &str, req: &Value, cache: &mut HashMap<String, syn::File>) -> Value {
    let file = req["file"].as_str().unwrap().to_string();
    let kind = req["kind"].as_str().unwrap();
    let path = req["path"].as_str().unwrap();
    let trait_name = req["trait"].as_str();
    let full = format!("{}/{}", repo, file);
    if !cache.contains_key(&file) {
        let src = match std::fs::read_to_string(&full) {
            Ok(s) => s,
            Err(e) => return json!({"path": path, "kind": kind, "file": file, "error": format!("LOST-ANCHOR cannot read {}: {}", full, e)}),
        };
        match syn::parse_file(&src) {
            Ok(f) => {
                cache.insert(file.clone(), f);
            }
            Err(e) => return json!({"path": path, "kind": kind, "file": file, "error": format!("UNSUPPORTED parse error in {}: {}", full, e)}),
        }
    }
    let ast = cache.get(&file).unwrap();
    let sig_only = kind == "sig";
    let kind = if sig_only { "fn" } else { kind };
    let Some(found) = find_item(&ast.items, kind, path, trait_name) else {
        return json!({"path": path, "kind": kind, "file": file, "error": format!("LOST-ANCHOR {} {} not found in {}", kind, path, file)});
    };
    let keep: Vec<String> = req["derive_keep"]
        .as_array()
        .map(|a| a.iter().map(|v| v.as_str().unwrap().to_string()).collect())
        .unwrap_or_else(|| vec![]);
    let mut out = json!({"path": path, "kind": found.kind, "file": file, "error": Value::Null});
    match found.item {
        FoundItem::Struct(s) => {
            let mut s2 = s.clone();
            if let Some(ft) = req["field_types"].as_object() {
                if let Fields::Named(n) = &mut s2.fields {
                    for f in n.named.iter_mut() {
                        let name = f.ident.as_ref().unwrap().to_string();
                        if let Some(t) = ft.get(&name) {
                            f.ty = syn::parse_str::<Type>(t.as_str().unwrap()).expect("field_types type");
                        }
                    }
                }
            }
            let derives = filter_derives(&s2.attrs, &keep);
            s2.attrs.clear();
            s2.vis = parse_quote!(pub);
            strip_vis_fields(&mut s2.fields);
            out["line"] = json!(s.ident.span().start().line);
            out["derives"] = json!(derives);
            out["text"] = json!(unparse_items(vec![Item::Struct(s2)]));
        }
        FoundItem::Enum(s) => {
            let mut s2 = s.clone();
            let derives = filter_derives(&s2.attrs, &keep);
            s2.attrs.clear();
            s2.vis = parse_quote!(pub);
            for v in s2.variants.iter_mut() {
                v.attrs.clear();
                TypeMapper.visit_fields_mut(&mut v.fields);
                for f in v.fields.iter_mut() { f.attrs.clear(); }
            }
            out["line"] = json!(s.ident.span().start().line);
            out["derives"] = json!(derives);
            out["text"] = json!(unparse_items(vec![Item::Enum(s2)]));
        }
        FoundItem::Const(c) => {
            let mut c2 = c.clone();
            c2.attrs.clear();
            c2.vis = parse_quote!(pub);
            out["line"] = json!(c.ident.span().start().line);
            out["text"] = json!(unparse_items(vec![Item::Const(c2)]));
        }
        FoundItem::ImplConst(im, c) => {
            let mut c2 = c.clone();
            c2.attrs.clear();
            c2.vis = parse_quote!(pub);
            out["line"] = json!(c.ident.span().start().line);
            out["impl_header"] = json!(impl_header(im));
            let txt = c2.to_token_stream().to_string();
            out["text"] = json!(txt);
        }
        FoundItem::Type(c) => {
            let mut c2 = c.clone();
            c2.attrs.clear();
            c2.vis = Visibility::Inherited;
            out["line"] = json!(c.ident.span().start().line);
            out["text"] = json!(unparse_items(vec![Item::Type(c2)]));
        }
        FoundItem::Trait(t) => {
            // only the method list (names + arities), used for drift detection of stand-ins
            let methods: Vec<Value> = t
                .items
                .iter()
                .filter_map(|ti| match ti {
                    TraitItem::Fn(m) => Some(json!({"name": m.sig.ident.to_string(), "arity": m.sig.inputs.len()})),
                    _ => None,
                })
                .collect();
            out["line"] = json!(t.ident.span().start().line);
            out["methods"] = json!(methods);
        }
        FoundItem::Fn(f) if sig_only => {
            let (_, _, shape) = sig_strings(&f.sig);
            out["kind"] = json!("sig");
            out["shape"] = shape;
            out["line"] = json!(f.sig.ident.span().start().line);
        }
        FoundItem::Method(_, m) if sig_only => {
            let (_, _, shape) = sig_strings(&m.sig);
            out["kind"] = json!("sig");
            out["shape"] = shape;
            out["line"] = json!(m.sig.ident.span().start().line);
        }
        FoundItem::Fn(f) => {
            emit_fn(&mut out, req, &f.sig, &f.block, None);
        }
        FoundItem::Method(im, m) => {
            emit_fn(&mut out, req, &m.sig, &m.block, Some(impl_header(im)));
            // the associated types of a trait impl belong to the method's context (`Self::Error` in a signature)
            if im.trait_.is_some() {
                let assoc: Vec<String> = im.items.iter().filter_map(|it| match it {
                    syn::ImplItem::Type(t) => {
                        let mut t2 = t.clone();
                        t2.attrs.clear();
                        Some(t2.to_token_stream().to_string())
                    }
                    _ => None,
                }).collect();
                if !assoc.is_empty() {
                    out["impl_assoc"] = json!(assoc.join("\n"));
                }
            }
        }
        FoundItem::TraitMethod(t, m) => {
            let hdr = format!("trait {}", t.ident);
            emit_fn(&mut out, req, &m.sig, m.default.as_ref().unwrap(), Some(hdr));
        }
    }
    out
}

fn emit_fn(out: &mut Value, req: &Value, sig: &Signature, block: &Block, impl_hdr: Option<String>) {
    let mut sig_owned = sig.clone();
    TypeMapper.visit_signature_mut(&mut sig_owned);
    let mut extra_applied: Vec<Value> = vec![];
    if let Some(mp) = req["mut_params"].as_array() {
        for a in sig_owned.inputs.iter_mut() {
            // N13b for the receiver (`mut_params=self`): `&self` of a handle whose interior-mutable sink is ghost state => `&mut self`
            if let FnArg::Receiver(rc) = a {
                if mp.iter().any(|m| m.as_str() == Some("self")) && rc.reference.is_some() && rc.mutability.is_none() {
                    rc.mutability = Some(Default::default());
                    if let Type::Reference(r) = &mut *rc.ty {
                        r.mutability = Some(Default::default());
                    }
                    extra_applied.push(json!({"rule": "N13b-shared-sink-receiver-to-mut", "line": sig.ident.span().start().line}));
                }
            }
            if let FnArg::Typed(pt) = a {
                let name = pt.pat.to_token_stream().to_string();
                if mp.iter().any(|m| m.as_str() == Some(name.as_str())) {
                    if let Type::Reference(r) = &mut *pt.ty {
                        if r.mutability.is_none() {
                            r.mutability = Some(Default::default());
                            extra_applied.push(json!({"rule": "N13b-shared-sink-param-to-mut", "line": sig.ident.span().start().line}));
                        }
                    }
                }
            }
        }
    }
    if let Some(pt_map) = req["param_types"].as_object() {
        for a in sig_owned.inputs.iter_mut() {
            if let FnArg::Typed(pt) = a {
                let name = pt.pat.to_token_stream().to_string();
                if let Some(t) = pt_map.get(&name) {
                    *pt.ty = syn::parse_str::<Type>(t.as_str().unwrap()).expect("param_types type");
                    extra_applied.push(json!({"rule": "N2-param-type-opaque", "line": sig.ident.span().start().line}));
                }
            }
        }
    }
    // N19: `mut self` by value is unsupported by Verus: `fn f(mut self) { B }` => `fn f(self) { let mut hq_self = self; B[self := hq_self] }`
    let mut rename_self = false;
    if let Some(FnArg::Receiver(rc)) = sig_owned.inputs.first_mut() {
        if rc.reference.is_none() && rc.mutability.is_some() {
            rc.mutability = None;
            rename_self = true;
            extra_applied.push(json!({"rule": "N19-mut-self-by-value", "line": sig.ident.span().start().line}));
        }
    }
    let sig = &sig_owned;
    let (sig_txt, ret, shape) = sig_strings(sig);
    out["line"] = json!(sig.ident.span().start().line);
    out["end_line"] = json!(block.brace_token.span.close().end().line);
    out["sig"] = json!(sig_txt);
    out["ret"] = json!(ret);
    out["shape"] = shape;
    if let Some(h) = impl_hdr {
        out["impl_header"] = json!(h);
    }
    let mut b = block.clone();
    if rename_self {
        struct R;
        impl VisitMut for R {
            fn visit_expr_path_mut(&mut self, p: &mut ExprPath) {
                if p.path.is_ident("self") {
                    p.path = parse_quote!(hq_self);
                }
            }
            fn visit_macro_mut(&mut self, m: &mut Macro) {
                // `self` inside macro arguments (assert!, format!, ...)
                let ts: TokenStream = m.tokens.clone().into_iter().map(|t| match t {
                    proc_macro2::TokenTree::Ident(i) if i == "self" => proc_macro2::TokenTree::Ident(proc_macro2::Ident::new("hq_self", i.span())),
                    o => o,
                }).collect();
                m.tokens = ts;
            }
        }
        R.visit_block_mut(&mut b);
        b.stmts.insert(0, parse_quote!(let mut hq_self = self;));
    }
    let mut n = Norm::new(req);
    if sig.asyncness.is_some() {
        n.log("N10-async-without-await", sig.ident.span());
    }
    // N11e (slice inside a macro invocation, e.g. an arm of `tokio::select!`): the first `{ .. }` token group that follows the anchor
    // tokens anywhere in the function's token tree becomes the body (the tokens are the real ones; they are parsed as a block)
    if let Some(anchor) = req["slice_group"].as_str() {
        let a: String = anchor.chars().filter(|c| !c.is_whitespace()).collect();
        match find_group(b.to_token_stream(), &a) {
            Some(ts) => match syn::parse2::<Block>(quote!({ #ts })) {
                Ok(nb) => {
                    b = nb;
                    if let Some(tail) = req["slice_tail"].as_str() {
                        let te: Expr = syn::parse_str(tail).expect("slice_tail");
                        // statement-position tail of the arm gets its semicolon
                        if let Some(Stmt::Expr(e, semi @ None)) = b.stmts.last_mut() {
                            let _ = e;
                            *semi = Some(Default::default());
                        }
                        b.stmts.push(Stmt::Expr(te, None));
                    }
                    n.log("N11e-slice-token-group", sig.ident.span());
                }
                Err(e) => {
                    out["error"] = json!(format!("UNSUPPORTED slice_group: the token group does not parse as a block: {}", e));
                    return;
                }
            },
            None => {
                out["error"] = json!(format!("LOST-ANCHOR slice_group not found: {}", anchor));
                return;
            }
        }
    }
    // optional nested slice (N11): one inner statement becomes the body
    if let Some(anchor) = req["slice_stmt"].as_str() {
        match norm::find_stmts(&b, anchor, req["slice_nth"].as_u64().unwrap_or(1) as usize, req["slice_until"].as_str()) {
            Some((sts, ctx)) => {
                let mut stmts: Vec<Stmt> = sts
                    .into_iter()
                    .map(|st| match st {
                        Stmt::Expr(e, None) => Stmt::Expr(e, Some(Default::default())),
                        other => other,
                    })
                    .collect();
                // N11 (loop body): `slice_body=1` takes the body of the found `for` statement instead of the statement
                if req["slice_body"].as_bool().unwrap_or(false) {
                    let body = match &stmts[0] {
                        Stmt::Expr(Expr::ForLoop(f), _) => Some(f.body.stmts.clone()),
                        // `let X = { .. };`: the statements of the initialiser block (its tail expression stays the tail)
                        Stmt::Local(l) => match l.init.as_ref().map(|i| &*i.expr) {
                            Some(Expr::Block(eb)) if eb.label.is_none() && l.init.as_ref().unwrap().diverge.is_none() => Some(eb.block.stmts.clone()),
                            _ => None,
                        },
                        _ => None,
                    };
                    match body {
                        Some(b2) => stmts = b2,
                        None => {
                            out["error"] = json!("LOST-ANCHOR slice_body: the sliced statement is neither a for loop nor a let with a block initialiser");
                            return;
                        }
                    }
                }
                // N11b: carry the enclosing `let`s the slice depends on (beyond the parameters of the slice signature)
                if let Some(sigtxt) = req["slice_sig"].as_str() {
                    if let Ok(f) = syn::parse_str::<ItemFn>(&format!("{} {{}}", sigtxt)) {
                        let mut params = vec![];
                        for a in f.sig.inputs.iter() {
                            if let FnArg::Typed(pt) = a {
                                norm::pat_idents(&pt.pat, &mut params);
                            }
                        }
                        let lets = norm::needed_lets(&stmts, &ctx, &params);
                        if !lets.is_empty() {
                            n.log("N11b-slice-carries-lets", sig.ident.span());
                            let mut pre: Vec<Stmt> = lets.into_iter().map(Stmt::Local).collect();
                            pre.append(&mut stmts);
                            stmts = pre;
                        }
                    }
                }
                if let Some(tail) = req["slice_tail"].as_str() {
                    let te: Expr = syn::parse_str(tail).expect("slice_tail");
                    stmts.push(Stmt::Expr(te, None));
                }
                b = Block { brace_token: Default::default(), stmts };
                n.log("N11-slice-stmt", sig.ident.span());
            }
            None => {
                out["error"] = json!(format!("LOST-ANCHOR slice_stmt not found: {}", anchor));
                return;
            }
        }
    }
    // optional slice (N11): keep only statements between two anchors
    if let Some(sl) = req.get("slice") {
        if !sl.is_null() {
            match norm::slice_block(&b, sl) {
                Ok(nb) => {
                    b = nb;
                    if let Some(tail) = sl["tail"].as_str() {
                        let te: Expr = syn::parse_str(tail).expect("slice_tail");
                        b.stmts.push(Stmt::Expr(te, None));
                    }
                    n.log("N11-slice", sig.ident.span());
                }
                Err(e) => {
                    out["error"] = json!(format!("LOST-ANCHOR slice: {}", e));
                    return;
                }
            }
        }
    }
    if sig.asyncness.is_some() && has_await(&b) && req["await_yields"].as_str().is_none() {
        out["error"] = json!("UNSUPPORTED async fn with .await cannot be extracted (N10); slice an await-free part instead");
        return;
    }
    // N16: item declarations inside the body (local enums/structs) are hoisted in front of the fn
    let mut hoisted: Vec<Item> = vec![];
    let mut kept = vec![];
    for st in b.stmts.drain(..) {
        match st {
            Stmt::Item(Item::Enum(mut e)) => {
                e.attrs.clear();
                e.vis = parse_quote!(pub);
                hoisted.push(Item::Enum(e));
            }
            Stmt::Item(Item::Struct(mut e)) => {
                e.attrs.clear();
                e.vis = parse_quote!(pub);
                hoisted.push(Item::Struct(e));
            }
            other => kept.push(other),
        }
    }
    b.stmts = kept;
    if !hoisted.is_empty() {
        n.log("N16-hoist-local-items", sig.ident.span());
        out["hoisted"] = json!(unparse_items(hoisted));
    }
    n.visit_block_mut(&mut b);
    // N11d (slices of a `()` function that compute a value): with `slice_opt_return=1` the slice returns `Option<T>`: the value of
    // its tail expression is `Some(..)`, and every bare `return;` of the enclosing function (which leaves it early) is `return None;`
    if req["slice_opt_return"].as_bool().unwrap_or(false) {
        struct OR { bad: bool }
        impl VisitMut for OR {
            fn visit_expr_mut(&mut self, e: &mut Expr) {
                match e {
                    Expr::Closure(_) | Expr::Async(_) => {}
                    Expr::Return(r) => {
                        if r.expr.is_none() { r.expr = Some(Box::new(parse_quote!(None))); } else { self.bad = true; }
                    }
                    _ => visit_mut::visit_expr_mut(self, e),
                }
            }
            fn visit_item_mut(&mut self, _: &mut Item) {}
        }
        let mut or = OR { bad: false };
        or.visit_block_mut(&mut b);
        let tail_ok = match b.stmts.last_mut() {
            Some(Stmt::Expr(e, None)) => { let old = e.clone(); *e = parse_quote!(Some(#old)); true }
            _ => false,
        };
        if or.bad || !tail_ok {
            out["error"] = json!("UNSUPPORTED slice_opt_return: the slice has a `return <value>` or no tail expression");
            return;
        }
        n.log("N11d-slice-option-return", sig.ident.span());
    }
    // N11g (slices of a loop body whose enclosing loop is left with a value): with `slice_break_value=1` the slice returns `Option<T>`:
    // `break E;` of the enclosing loop (not of a loop inside the slice) is `return Some(E);` - the loop ends with E there -, a `continue`
    // of the enclosing loop is `return None;`, and falling through the slice (the next iteration follows) is the tail `None`
    if req["slice_break_value"].as_bool().unwrap_or(false) {
        struct BV;
        impl VisitMut for BV {
            fn visit_expr_mut(&mut self, e: &mut Expr) {
                match e {
                    Expr::Closure(_) | Expr::Async(_) | Expr::Loop(_) | Expr::While(_) | Expr::ForLoop(_) => {}
                    Expr::Break(br) if br.label.is_none() => {
                        let ne: Expr = match br.expr.take() {
                            Some(v) => parse_quote!(return Some(#v)),
                            None => parse_quote!(return None),
                        };
                        *e = ne;
                    }
                    Expr::Continue(c) if c.label.is_none() => {
                        let ne: Expr = parse_quote!(return None);
                        *e = ne;
                    }
                    _ => visit_mut::visit_expr_mut(self, e),
                }
            }
            fn visit_item_mut(&mut self, _: &mut Item) {}
        }
        BV.visit_block_mut(&mut b);
        if let Some(Stmt::Expr(_, semi @ None)) = b.stmts.last_mut() {
            *semi = Some(Default::default());
        }
        b.stmts.push(Stmt::Expr(parse_quote!(None), None));
        n.log("N11g-slice-break-value", sig.ident.span());
    }
    // N11f (slices that contain an early `return E` of the enclosing function): with `slice_wrap_return=1` the slice returns
    // `Option<T>`: `return E;` is `return Some(E);` (the enclosing function returns E there) and falling through the slice is the
    // tail given by `slice_tail=None`
    if req["slice_wrap_return"].as_bool().unwrap_or(false) {
        struct WR;
        impl VisitMut for WR {
            fn visit_expr_mut(&mut self, e: &mut Expr) {
                match e {
                    Expr::Closure(_) | Expr::Async(_) => {}
                    Expr::Return(r) => {
                        if let Some(v) = r.expr.take() { r.expr = Some(Box::new(parse_quote!(Some(#v)))); }
                    }
                    _ => visit_mut::visit_expr_mut(self, e),
                }
            }
            fn visit_item_mut(&mut self, _: &mut Item) {}
        }
        WR.visit_block_mut(&mut b);
        n.log("N11f-slice-wrap-return", sig.ident.span());
    }
    n.mark_loops(&mut b);
    // closures that survived the normalisation: the verifier accepts them but sees nothing of their results when they are passed
    // to a std combinator; a failing obligation in such a function is undecided, not a violation (hqprop)
    {
        struct CC(usize);
        impl<'ast> syn::visit::Visit<'ast> for CC {
            fn visit_expr_closure(&mut self, c: &'ast ExprClosure) {
                self.0 += 1;
                syn::visit::visit_expr_closure(self, c);
            }
        }
        let mut cc = CC(0);
        syn::visit::Visit::visit_block(&mut cc, &b);
        out["residual_closures"] = json!(cc.0);
    }
    out["body"] = json!(print_block(&b));
    out["loops"] = json!(n.loops);
    let mut all_applied = extra_applied;
    all_applied.extend(n.applied.iter().cloned());
    out["applied"] = json!(all_applied);
    out["panic_sites"] = json!(n.panic_sites);
    if !n.errors.is_empty() {
        out["error"] = json!(format!("UNSUPPORTED {}", n.errors.join("; ")));
    }
}

fn main() {
    let args: Vec<String> = std::env::args().collect();
    let spec: Value = serde_json::from_str(&std::fs::read_to_string(&args[1]).expect("read spec")).expect("spec json");
    let repo = spec["repo"].as_str().unwrap_or("/repo").to_string();
    let mut cache = HashMap::new();
    let mut items = vec![];
    for req in spec["requests"].as_array().unwrap() {
        let r = std::panic::catch_unwind(std::panic::AssertUnwindSafe(|| process(&repo, req, &mut cache)));
        match r {
            Ok(v) => items.push(v),
            Err(_) => items.push(json!({"path": req["path"], "kind": req["kind"], "file": req["file"], "error": "UNSUPPORTED extractor panic"})),
        }
    }
    println!("{}", serde_json::to_string_pretty(&json!({"items": items})).unwrap());
}

#[allow(dead_code)]
fn _unused(_: TokenStream, _: Span) {
    let _ = quote!();
    fn _p<T: Parse>(_: ParseStream) {}
    let _ = Punctuated::<Expr, Token![,]>::parse_terminated.parse2(TokenStream::new());
    struct _V;
    impl VisitMut for _V {
        fn visit_expr_mut(&mut self, e: &mut Expr) {
            visit_mut::visit_expr_mut(self, e);
            let _ = e.span();
        }
    }
}

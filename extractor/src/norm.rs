//! Normalisation catalogue (DESIGN.md §3.2). Each rule is the definitional expansion of a Rust
//! construct that Verus' front end does not accept, or the removal of a statement without
//! effect on the verified state (logging). Every application is logged.

use proc_macro2::{Span, TokenStream};
use quote::{quote, ToTokens};
use serde_json::{json, Value};
use syn::parse::{Parse, ParseStream, Parser};
use syn::punctuated::Punctuated;
use syn::spanned::Spanned;
use syn::visit_mut::{self, VisitMut};
use syn::*;

pub struct Norm {
    pub diverge: bool,
    pub applied: Vec<Value>,
    pub loops: Vec<Value>,
    pub errors: Vec<String>,
    pub panic_sites: Vec<Value>,
    pub index_recv: Vec<String>,
    pub copied_to_map: bool,
    pub opaque_into: bool,
    pub option_combinators: bool,
    pub map_collect: bool,
    pub keep_unreachable: bool,
    pub collect_as_set: Vec<String>,
    pub acc_type: Option<String>,
    pub extend_with: Option<Vec<(String, String)>>,
    pub copied_collect_as: Option<String>,
    pub await_yields: Option<String>,
    pub drop_calls: Vec<String>,
    pub opaque_macros: Vec<String>,
    pub rename_calls: Vec<(String, String)>,
    pub str_params: Vec<String>,
    pub string_exprs: Vec<String>,
    pub seq_args: Vec<String>,
    pub set_into_vec: Vec<String>,
    pub float_casts: Option<String>,
    pub into_vec: Vec<String>,
    pub iter_on: Vec<String>,
    pub iter_vec: Vec<String>,
    pub deref_params: Vec<String>,
    pub entry_place: bool,
    pub subst: Vec<(String, Expr)>,
    pub keyed_mut_iter: Vec<(String, String, String)>,
    lvalue_depth: usize,
    tmp_counter: usize,
}

struct MatchesArgs {
    expr: Expr,
    pat: Pat,
    guard: Option<Expr>,
}

impl Parse for MatchesArgs {
    fn parse(input: ParseStream) -> Result<Self> {
        let expr: Expr = input.parse()?;
        input.parse::<Token![,]>()?;
        let pat = Pat::parse_multi_with_leading_vert(input)?;
        let guard = if input.peek(Token![if]) {
            input.parse::<Token![if]>()?;
            Some(input.parse::<Expr>()?)
        } else {
            None
        };
        let _ = input.parse::<Token![,]>();
        Ok(MatchesArgs { expr, pat, guard })
    }
}

fn macro_name(m: &Macro) -> String {
    m.path
        .segments
        .iter()
        .map(|s| s.ident.to_string())
        .collect::<Vec<_>>()
        .join("::")
}

fn is_log_macro(name: &str) -> bool {
    matches!(
        name,
        "log::trace" | "log::debug" | "log::info" | "log::warn" | "log::error" | "trace" | "debug" | "info" | "warn"
            | "error" | "println" | "eprintln" | "tracing::trace" | "tracing::debug" | "tracing::info"
            | "tracing::warn" | "tracing::error"
    )
}

fn parse_args(ts: TokenStream) -> Result<Vec<Expr>> {
    let p = Punctuated::<Expr, Token![,]>::parse_terminated.parse2(ts)?;
    Ok(p.into_iter().collect())
}

fn flatten_and(e: &Expr, out: &mut Vec<Expr>) {
    match e {
        Expr::Binary(b) if matches!(b.op, BinOp::And(_)) => {
            flatten_and(&b.left, out);
            flatten_and(&b.right, out);
        }
        Expr::Paren(p) if contains_let(&p.expr) => flatten_and(&p.expr, out),
        _ => out.push(e.clone()),
    }
}

fn contains_let(e: &Expr) -> bool {
    match e {
        Expr::Let(_) => true,
        Expr::Binary(b) if matches!(b.op, BinOp::And(_)) => contains_let(&b.left) || contains_let(&b.right),
        Expr::Paren(p) => contains_let(&p.expr),
        _ => false,
    }
}

/// all alternatives of a pattern with every (nested) or-pattern distributed
fn expand_pat(p: &Pat) -> Vec<Pat> {
    fn product<T: Clone>(lists: Vec<Vec<T>>) -> Vec<Vec<T>> {
        let mut acc: Vec<Vec<T>> = vec![vec![]];
        for l in lists {
            let mut next = vec![];
            for a in &acc {
                for x in &l {
                    let mut b = a.clone();
                    b.push(x.clone());
                    next.push(b);
                }
            }
            acc = next;
        }
        acc
    }
    match p {
        Pat::Or(o) => o.cases.iter().flat_map(expand_pat).collect(),
        Pat::Paren(pp) => expand_pat(&pp.pat),
        Pat::Tuple(t) => {
            let lists: Vec<Vec<Pat>> = t.elems.iter().map(expand_pat).collect();
            product(lists)
                .into_iter()
                .map(|els| {
                    let mut nt = t.clone();
                    nt.elems = els.into_iter().collect();
                    Pat::Tuple(nt)
                })
                .collect()
        }
        Pat::TupleStruct(t) => {
            let lists: Vec<Vec<Pat>> = t.elems.iter().map(expand_pat).collect();
            product(lists)
                .into_iter()
                .map(|els| {
                    let mut nt = t.clone();
                    nt.elems = els.into_iter().collect();
                    Pat::TupleStruct(nt)
                })
                .collect()
        }
        Pat::Struct(st) => {
            let lists: Vec<Vec<Pat>> = st.fields.iter().map(|f| expand_pat(&f.pat)).collect();
            product(lists)
                .into_iter()
                .map(|els| {
                    let mut ns = st.clone();
                    for (f, np) in ns.fields.iter_mut().zip(els.into_iter()) {
                        *f.pat = np;
                    }
                    Pat::Struct(ns)
                })
                .collect()
        }
        Pat::Ident(pi) if pi.subpat.is_some() => {
            let (at, sub) = pi.subpat.as_ref().unwrap();
            expand_pat(sub)
                .into_iter()
                .map(|np| {
                    let mut ni = pi.clone();
                    ni.subpat = Some((*at, Box::new(np)));
                    Pat::Ident(ni)
                })
                .collect()
        }
        Pat::Reference(r) => expand_pat(&r.pat)
            .into_iter()
            .map(|np| {
                let mut nr = r.clone();
                *nr.pat = np;
                Pat::Reference(nr)
            })
            .collect(),
        other => vec![other.clone()],
    }
}

fn has_binding(p: &Pat) -> bool {
    struct V(bool);
    impl<'ast> syn::visit::Visit<'ast> for V {
        fn visit_pat_ident(&mut self, i: &'ast PatIdent) {
            // an identifier starting with a lower-case letter is a binding (constants/unit variants are upper-case)
            if i.ident.to_string().chars().next().map(|c| c.is_lowercase() || c == '_').unwrap_or(false) {
                self.0 = true;
            }
            syn::visit::visit_pat_ident(self, i);
        }
    }
    let mut v = V(false);
    syn::visit::Visit::visit_pat(&mut v, p);
    v.0
}

/// a nested or-pattern (below the top level) in a pattern that binds something
fn needs_or_distribution(p: &Pat) -> bool {
    struct V(bool);
    impl<'ast> syn::visit::Visit<'ast> for V {
        fn visit_pat_or(&mut self, _: &'ast PatOr) {
            self.0 = true;
        }
    }
    let inner_has_or = |q: &Pat| {
        let mut v = V(false);
        syn::visit::Visit::visit_pat(&mut v, q);
        v.0
    };
    match p {
        Pat::Or(o) => o.cases.iter().any(|c| needs_or_distribution(c)),
        other => inner_has_or(other) && has_binding(other),
    }
}

fn pat_binds_by_mut_ref(p: &Pat) -> bool {
    // conservative syntactic test: an identifier pattern with `ref mut`
    struct V(bool);
    impl<'ast> syn::visit::Visit<'ast> for V {
        fn visit_pat_ident(&mut self, i: &'ast PatIdent) {
            if i.by_ref.is_some() && i.mutability.is_some() {
                self.0 = true;
            }
            syn::visit::visit_pat_ident(self, i);
        }
    }
    let mut v = V(false);
    syn::visit::Visit::visit_pat(&mut v, p);
    v.0
}

impl Norm {
    fn inline_local_closures(&mut self, b: &mut Block) {
        let mut idx = 0;
        while idx < b.stmts.len() {
            let cand = match &b.stmts[idx] {
                Stmt::Local(l) => match (&l.pat, &l.init) {
                    (Pat::Ident(pi), Some(init)) if init.diverge.is_none() && pi.by_ref.is_none() => match &*init.expr {
                        Expr::Closure(c) if !body_has_return(&c.body) && c.inputs.iter().all(|p| matches!(p, Pat::Ident(_)) || matches!(p, Pat::Type(pt) if matches!(&*pt.pat, Pat::Ident(_)))) => {
                            Some((pi.ident.clone(), c.clone(), l.let_token.span))
                        }
                        _ => None,
                    },
                    _ => None,
                },
                _ => None,
            };
            if let Some((name, clo, sp)) = cand {
                // uses of NAME other than as the callee of a call?
                struct Uses<'a> {
                    name: &'a Ident,
                    calls: usize,
                    other: usize,
                }
                impl<'ast, 'a> syn::visit::Visit<'ast> for Uses<'a> {
                    fn visit_expr_call(&mut self, c: &'ast ExprCall) {
                        if let Expr::Path(p) = &*c.func {
                            if p.path.is_ident(self.name) {
                                self.calls += 1;
                                for a in c.args.iter() {
                                    self.visit_expr(a);
                                }
                                return;
                            }
                        }
                        syn::visit::visit_expr_call(self, c);
                    }
                    fn visit_expr_path(&mut self, p: &'ast ExprPath) {
                        if p.path.is_ident(self.name) {
                            self.other += 1;
                        }
                    }
                }
                let mut u = Uses { name: &name, calls: 0, other: 0 };
                for st in b.stmts.iter().skip(idx + 1) {
                    syn::visit::Visit::visit_stmt(&mut u, st);
                }
                if u.calls > 0 && u.other == 0 {
                    struct Inl<'a> {
                        name: &'a Ident,
                        clo: &'a ExprClosure,
                    }
                    impl<'a> VisitMut for Inl<'a> {
                        fn visit_expr_mut(&mut self, e: &mut Expr) {
                            visit_mut::visit_expr_mut(self, e);
                            if let Expr::Call(c) = e {
                                if let Expr::Path(p) = &*c.func {
                                    if p.path.is_ident(self.name) && c.args.len() == self.clo.inputs.len() {
                                        let mut lets: Vec<Stmt> = vec![];
                                        for (pat, arg) in self.clo.inputs.iter().zip(c.args.iter()) {
                                            lets.push(parse_quote!(let #pat = #arg;));
                                        }
                                        let body = &self.clo.body;
                                        let ne: Expr = parse_quote!({ #(#lets)* #body });
                                        *e = ne;
                                    }
                                }
                            }
                        }
                    }
                    let mut inl = Inl { name: &name, clo: &clo };
                    for st in b.stmts.iter_mut().skip(idx + 1) {
                        inl.visit_stmt_mut(st);
                    }
                    b.stmts.remove(idx);
                    self.log("N7i-inline-local-closure", sp);
                    continue;
                }
            }
            idx += 1;
        }
    }

    /// N9c: `for P in NAME.iter()` over an opaque collection => `for P in FN(NAME)` (option iter_vec=NAME:FN;
    /// FN is an assumed-contract function returning the iteration sequence as a Vec)
    fn n9c(&mut self, f: &mut syn::ExprForLoop) {
        if let Expr::MethodCall(mc) = &*f.expr {
            if mc.method == "iter" && mc.args.is_empty() {
                if let Expr::Path(p) = &*mc.receiver {
                    let n = p.path.segments.iter().map(|s| s.ident.to_string()).collect::<Vec<_>>().join("::");
                    let hit = self.iter_vec.iter().find_map(|x| x.split_once(':').filter(|(a, _)| *a == n).map(|(_, b)| b.to_string()));
                    if let Some(fname) = hit {
                        let sp = f.for_token.span;
                        let recv = mc.receiver.clone();
                        let fid = proc_macro2::Ident::new(&fname, proc_macro2::Span::call_site());
                        *f.expr = parse_quote!(#fid(#recv));
                        self.log("N9c-iter-via-vec", sp);
                    }
                }
            }
        }
    }

    pub fn new(req: &Value) -> Self {
        let strs = |k: &str| -> Vec<String> {
            req[k]
                .as_array()
                .map(|a| a.iter().map(|v| v.as_str().unwrap().to_string()).collect())
                .unwrap_or_default()
        };
        Norm {
            diverge: req["panics"].as_str() == Some("diverge"),
            applied: vec![],
            loops: vec![],
            errors: vec![],
            panic_sites: vec![],
            index_recv: strs("index_recv"),
            copied_to_map: req["copied_to_map"].as_bool().unwrap_or(false),
            opaque_into: req["opaque_into"].as_bool().unwrap_or(false),
            option_combinators: req["option_combinators"].as_bool().unwrap_or(false),
            map_collect: req["map_collect"].as_bool().unwrap_or(false),
            keep_unreachable: req["keep_unreachable"].as_bool().unwrap_or(false),
            collect_as_set: strs("collect_as_set"),
            acc_type: req["acc_type"].as_str().map(|x| x.to_string()),
            extend_with: req["extend_with"].as_array().map(|a| a.iter().filter_map(|x| x.as_str()).filter_map(|x| x.split_once(':')).map(|(a, b)| (a.to_string(), b.to_string())).collect()),
            copied_collect_as: req["copied_collect_as"].as_str().map(|x| x.to_string()),
            await_yields: req["await_yields"].as_str().map(|x| x.to_string()),
            drop_calls: strs("drop_calls"),
            opaque_macros: strs("opaque_macros"),
            rename_calls: req["rename_calls"]
                .as_object()
                .map(|o| o.iter().map(|(k, v)| (k.clone(), v.as_str().unwrap().to_string())).collect())
                .unwrap_or_default(),
            str_params: strs("str_params"),
            string_exprs: strs("string_exprs"),
            seq_args: strs("seq_args"),
            set_into_vec: strs("set_into_vec"),
            float_casts: req["float_casts"].as_str().map(|x| x.to_string()),
            into_vec: strs("into_vec"),
            iter_on: strs("iter_on"),
            iter_vec: strs("iter_vec"),
            deref_params: strs("deref_params"),
            entry_place: req["entry_place"].as_bool().unwrap_or(false),
            subst: strs("subst").iter().filter_map(|x| x.split_once(':').map(|(a, b)| (a.chars().filter(|c| !c.is_whitespace()).collect::<String>(), syn::parse_str::<Expr>(b).expect("subst target")))).collect(),
            keyed_mut_iter: strs("keyed_mut_iter")
                .iter()
                .filter_map(|x| {
                    let p: Vec<&str> = x.split(':').collect();
                    if p.len() == 3 { Some((p[0].to_string(), p[1].to_string(), p[2].to_string())) } else { None }
                })
                .collect(),
            lvalue_depth: 0,
            tmp_counter: 0,
        }
    }

    /// `&mut R` / `&R` for a receiver R of generated code: R itself when it is a `&mut` parameter of the slice (deref_params, N13c)
    fn mut_ref_of(&self, recv: &Expr) -> Expr {
        if let Expr::Path(p) = recv {
            if p.path.get_ident().map(|i| self.deref_params.iter().any(|d| i == d)).unwrap_or(false) {
                return parse_quote!(&mut *#recv);
            }
        }
        parse_quote!(&mut #recv)
    }
    fn shared_ref_of(&self, recv: &Expr) -> Expr {
        if let Expr::Path(p) = recv {
            if p.path.get_ident().map(|i| self.deref_params.iter().any(|d| i == d)).unwrap_or(false) {
                return parse_quote!(&*#recv);
            }
        }
        parse_quote!(&#recv)
    }

    pub fn log(&mut self, rule: &str, sp: Span) {
        self.applied.push(json!({"rule": rule, "line": sp.start().line}));
    }

    fn site(&mut self, kind: &str, sp: Span) {
        self.panic_sites.push(json!({"kind": kind, "line": sp.start().line}));
    }

    fn panic_expr(&mut self) -> Expr {
        if self.diverge {
            parse_quote!(hq_panic())
        } else {
            parse_quote!(__hq_unreachable!())
        }
    }

    fn assert_expr(&mut self, cond: Expr) -> Expr {
        if self.diverge {
            parse_quote!(if !(#cond) { hq_panic(); })
        } else {
            parse_quote!(__hq_assert!(#cond))
        }
    }

    /// Rewrite of a macro invocation in expression position. None = leave untouched.
    fn rewrite_macro(&mut self, m: &Macro, sp: Span) -> Option<Expr> {
        let name = macro_name(m);
        let name = name.as_str();
        if is_log_macro(name) {
            self.log("N1-drop-log", sp);
            return Some(parse_quote!(()));
        }
        match name {
            "assert" | "debug_assert" => {
                let mut args = match parse_args(m.tokens.clone()) {
                    Ok(a) => a,
                    Err(e) => {
                        self.errors.push(format!("cannot parse {}! args: {}", name, e));
                        return None;
                    }
                };
                let mut cond = args.remove(0);
                self.visit_expr_mut(&mut cond);
                self.site("assert", sp);
                self.log(if self.diverge { "N14-assert-diverge" } else { "N3-assert-strip-msg" }, sp);
                Some(self.assert_expr(cond))
            }
            "assert_eq" | "debug_assert_eq" | "assert_ne" | "debug_assert_ne" => {
                let mut args = match parse_args(m.tokens.clone()) {
                    Ok(a) => a,
                    Err(e) => {
                        self.errors.push(format!("cannot parse {}! args: {}", name, e));
                        return None;
                    }
                };
                let mut a = args.remove(0);
                let mut b = args.remove(0);
                self.visit_expr_mut(&mut a);
                self.visit_expr_mut(&mut b);
                let cond: Expr = if name.ends_with("_eq") {
                    parse_quote!((#a) == (#b))
                } else {
                    parse_quote!((#a) != (#b))
                };
                self.site("assert", sp);
                self.log("N3-assert_eq", sp);
                Some(self.assert_expr(cond))
            }
            "unreachable" | "panic" | "todo" | "unimplemented" => {
                self.site(name, sp);
                if self.diverge && self.keep_unreachable && name == "unreachable" {
                    // option keep_unreachable=1: in a partial-correctness function `unreachable!()` stays an obligation
                    // (the function's precondition must exclude the arm), every other panic still diverges
                    self.log("N14-unreachable-kept", sp);
                    return Some(parse_quote!(__hq_unreachable!()));
                }
                self.log(if self.diverge { "N14-panic-diverge" } else { "N3-panic-strip-msg" }, sp);
                Some(self.panic_expr())
            }
            "matches" => {
                let a: MatchesArgs = match syn::parse2(m.tokens.clone()) {
                    Ok(a) => a,
                    Err(e) => {
                        self.errors.push(format!("cannot parse matches! args: {}", e));
                        return None;
                    }
                };
                let mut e = a.expr;
                self.visit_expr_mut(&mut e);
                let p = a.pat;
                self.log("N3-matches-expand", sp);
                Some(match a.guard {
                    Some(mut g) => {
                        self.visit_expr_mut(&mut g);
                        parse_quote!(match #e { #p => { if #g { true } else { false } } _ => false })
                    }
                    None => parse_quote!(match #e { #p => true, _ => false }),
                })
            }
            "format" => {
                self.log("N15-format-opaque", sp);
                Some(parse_quote!(hq_format()))
            }
            "get_or_return" => {
                let mut args = match parse_args(m.tokens.clone()) {
                    Ok(a) => a,
                    Err(e) => {
                        self.errors.push(format!("cannot parse get_or_return! args: {}", e));
                        return None;
                    }
                };
                let mut e = args.remove(0);
                self.visit_expr_mut(&mut e);
                self.log("N3-get_or_return", sp);
                Some(parse_quote!(match #e { Some(v) => v, None => return }))
            }
            "trace_time" => {
                // trace_time!(category, name, expr) => expr
                let mut args = match parse_args(m.tokens.clone()) {
                    Ok(a) => a,
                    Err(e) => {
                        self.errors.push(format!("cannot parse trace_time! args: {}", e));
                        return None;
                    }
                };
                let mut e = args.pop().unwrap();
                self.visit_expr_mut(&mut e);
                self.log("N1-trace_time-unwrap", sp);
                Some(e)
            }
            "vec" | "smallvec" | "thin_vec" | "thinvec" => {
                if m.tokens.is_empty() {
                    self.log("N12-empty-vec-macro", sp);
                    return Some(parse_quote!(Vec::new()));
                }
                None
            }
            _ => {
                if self.opaque_macros.iter().any(|x| x == name) {
                    self.log("N2-opaque-macro", sp);
                    let id = Ident::new(&format!("hq_opaque_{}", name.replace("::", "_")), Span::call_site());
                    return Some(parse_quote!(#id()));
                }
                None
            }
        }
    }

    fn rewrite_let_chain(&mut self, i: &ExprIf) -> Expr {
        let mut conj = vec![];
        flatten_and(&i.cond, &mut conj);
        let then = i.then_branch.clone();
        let els = i.else_branch.as_ref().map(|(_, e)| (**e).clone());
        let mut acc: Expr = Expr::Block(ExprBlock { attrs: vec![], label: None, block: then });
        for c in conj.into_iter().rev() {
            let body: Block = match acc {
                Expr::Block(b) if b.label.is_none() => b.block,
                other => parse_quote!({ #other }),
            };
            acc = match &els {
                Some(e) => {
                    let eb: Expr = match e {
                        Expr::Block(_) | Expr::If(_) => e.clone(),
                        other => parse_quote!({ #other }),
                    };
                    // else of `if` must be a block or another if
                    let eb: Expr = match eb {
                        Expr::If(ii) => parse_quote!({ #ii }),
                        b => b,
                    };
                    parse_quote!(if #c #body else #eb)
                }
                None => parse_quote!(if #c #body),
            };
        }
        acc
    }

    /// N14: in diverge mode an out-of-range *write* `E[i] = v` / `E[i] op= v` diverges: `*E.hq_index_mut(i) = v`
    fn place_index_diverge(&mut self, left: &mut Expr) {
        if !self.diverge {
            return;
        }
        if let Expr::Index(ix) = left {
            if matches!(&*ix.index, Expr::Range(_)) {
                return;
            }
            let sp = ix.bracket_token.span.open();
            let base = &ix.expr;
            let idx = &ix.index;
            let ne: Expr = parse_quote!((*(#base).hq_index_mut(#idx)));
            *left = ne;
            self.log("N14-index-write-diverge", sp);
        }
    }

    fn fresh(&mut self, base: &str) -> Ident {
        self.tmp_counter += 1;
        Ident::new(&format!("__hq_{}{}", base, self.tmp_counter), Span::call_site())
    }

    /// number the loops in pre-order and plant markers for the contract splicer
    pub fn mark_loops(&mut self, b: &mut Block) {
        struct M<'a> {
            n: &'a mut Norm,
        }
        impl<'a> VisitMut for M<'a> {
            fn visit_expr_mut(&mut self, e: &mut Expr) {
                match e {
                    Expr::ForLoop(f) => {
                        let ord = self.n.loops.len();
                        let it = &f.expr;
                        self.n.loops.push(json!({"ordinal": ord, "kind": "for", "line": f.for_token.span.start().line,
                            "header": it.to_token_stream().to_string()}));
                        let lit = LitInt::new(&ord.to_string(), Span::call_site());
                        let newe: Expr = parse_quote!(__hq_iter!(#lit, #it));
                        *f.expr = newe;
                        f.body.stmts.insert(0, parse_quote!(__hq_loop!(#lit);));
                        visit_mut::visit_block_mut(self, &mut f.body);
                    }
                    Expr::While(w) => {
                        let ord = self.n.loops.len();
                        self.n.loops.push(json!({"ordinal": ord, "kind": "while", "line": w.while_token.span.start().line,
                            "header": w.cond.to_token_stream().to_string()}));
                        let lit = LitInt::new(&ord.to_string(), Span::call_site());
                        w.body.stmts.insert(0, parse_quote!(__hq_loop!(#lit);));
                        visit_mut::visit_block_mut(self, &mut w.body);
                    }
                    Expr::Loop(l) => {
                        let ord = self.n.loops.len();
                        self.n.loops.push(json!({"ordinal": ord, "kind": "loop", "line": l.loop_token.span.start().line, "header": ""}));
                        let lit = LitInt::new(&ord.to_string(), Span::call_site());
                        l.body.stmts.insert(0, parse_quote!(__hq_loop!(#lit);));
                        visit_mut::visit_block_mut(self, &mut l.body);
                    }
                    _ => visit_mut::visit_expr_mut(self, e),
                }
            }
        }
        let mut m = M { n: self };
        m.visit_block_mut(b);
    }
}

fn stmt_is_unit_expr(s: &Stmt) -> bool {
    match s {
        Stmt::Expr(Expr::Tuple(t), _) => t.elems.is_empty(),
        _ => false,
    }
}

impl VisitMut for Norm {
    fn visit_type_mut(&mut self, t: &mut Type) {
        visit_mut::visit_type_mut(self, t);
        if let Some(nt) = map_vec_type(t) {
            self.log("N12-smallvec-thinvec-to-vec", t.span());
            *t = nt;
        }
    }

    fn visit_block_mut(&mut self, b: &mut Block) {
        // N7i: a local closure that is only ever called (`let f = |p..| B; ... f(a..) ...`) is expanded at its call sites
        // (beta reduction: `{ let p = a; ..; B }`); only when B has no `return` and the parameters are plain identifiers
        self.inline_local_closures(b);
        // statement-position macros become expression statements so that one rewriter handles both
        let mut new_stmts = Vec::with_capacity(b.stmts.len());
        let n = b.stmts.len();
        for (idx, s) in std::mem::take(&mut b.stmts).into_iter().enumerate() {
            let is_last = idx + 1 == n;
            match s {
                Stmt::Macro(sm) => {
                    let sp = sm.mac.path.span();
                    if let Some(e) = self.rewrite_macro(&sm.mac, sp) {
                        let st = Stmt::Expr(e, Some(sm.semi_token.unwrap_or_default()));
                        if !stmt_is_unit_expr(&st) {
                            new_stmts.push(st);
                        }
                    } else {
                        new_stmts.push(Stmt::Macro(sm));
                    }
                }
                Stmt::Expr(Expr::Macro(em), semi) => {
                    let sp = em.mac.path.span();
                    if let Some(e) = self.rewrite_macro(&em.mac, sp) {
                        let st = Stmt::Expr(e, semi);
                        // a dropped log statement in tail position of a unit block: drop as well
                        if !(stmt_is_unit_expr(&st) && (semi.is_some() || is_last)) {
                            new_stmts.push(st);
                        }
                    } else {
                        new_stmts.push(Stmt::Expr(Expr::Macro(em), semi));
                    }
                }
                other => new_stmts.push(other),
            }
        }
        b.stmts = new_stmts;
        // N1b: statements under `#[cfg(debug_assertions)]` do not exist in release builds (the configuration that is verified)
        {
            let has_dbg = |attrs: &Vec<Attribute>| attrs.iter().any(|a| a.path().is_ident("cfg") && a.to_token_stream().to_string().replace(' ', "").contains("cfg(debug_assertions)"));
            let before = b.stmts.len();
            let mut spans = vec![];
            b.stmts.retain(|s| {
                let drop = match s {
                    Stmt::Expr(Expr::MethodCall(mc), _) => has_dbg(&mc.attrs),
                    Stmt::Expr(Expr::Call(c), _) => has_dbg(&c.attrs),
                    Stmt::Expr(Expr::Macro(m), _) => has_dbg(&m.attrs),
                    Stmt::Expr(Expr::Block(bl), _) => has_dbg(&bl.attrs),
                    Stmt::Expr(Expr::ForLoop(f), _) => has_dbg(&f.attrs),
                    Stmt::Expr(Expr::If(i), _) => has_dbg(&i.attrs),
                    Stmt::Local(l) => has_dbg(&l.attrs),
                    _ => false,
                };
                if drop {
                    spans.push(s.span());
                }
                !drop
            });
            if b.stmts.len() != before {
                for sp in spans {
                    self.log("N1b-drop-cfg-debug_assertions", sp);
                }
            }
        }
        // drop configured no-effect calls, e.g. `drop(state);`
        let drops = self.drop_calls.clone();
        if !drops.is_empty() {
            let mut logged = vec![];
            b.stmts.retain(|s| {
                if let Stmt::Expr(Expr::MethodCall(mc), Some(_)) = s {
                    let n = format!(".{}", mc.method);
                    if drops.iter().any(|d| *d == n) {
                        logged.push(mc.span());
                        return false;
                    }
                }
                if let Stmt::Expr(Expr::Call(c), Some(_)) = s {
                    if let Expr::Path(p) = &*c.func {
                        let n = p.path.segments.iter().map(|s| s.ident.to_string()).collect::<Vec<_>>().join("::");
                        if drops.iter().any(|d| *d == n) {
                            logged.push(c.span());
                            return false;
                        }
                    }
                }
                true
            });
            for sp in logged {
                self.log("N1-drop-call", sp);
            }
        }
        visit_mut::visit_block_mut(self, b);
    }

    fn visit_local_mut(&mut self, l: &mut Local) {
        // N7g: `let Some(P) = OPT.map(|p| B) [else D]`: the `Some` pattern shows OPT is an Option, so the combinator
        // is its definition: `match OPT { Some(p) => Some(B), None => None }`
        // N8h (set form): `let X: Set<T> = ITER.copied().collect();` => insert loop
        if let Pat::Type(pt) = &l.pat {
            let is_set = match &*pt.ty {
                Type::Path(tp) => tp.path.segments.last().map(|s| s.ident == "Set" || s.ident == "HashSet").unwrap_or(false),
                _ => false,
            };
            if is_set {
                if let Some(init) = &mut l.init {
                    if let Expr::MethodCall(mc) = &*init.expr {
                        // N8j (set form): `let X: Set<T> = ITER.filter_map(|p| B).collect();` => insert loop
                        if mc.method == "collect" && mc.args.is_empty() {
                            if let Some(ne) = filter_map_collect_loop(&mc.receiver, true, &mut self.tmp_counter) {
                                let sp = mc.method.span();
                                *init.expr = ne;
                                self.log("N8j-filter_map-collect-to-set-loop", sp);
                            }
                        }
                    }
                    if let Expr::MethodCall(mc) = &*init.expr {
                        if mc.method == "collect" && mc.args.is_empty() && is_copied_iter(&mc.receiver) {
                            if let Expr::MethodCall(inner) = &*mc.receiver {
                                let sp = mc.method.span();
                                let it = inner.receiver.clone();
                                let acc = self.fresh("set");
                                let x = self.fresh("x");
                                let ne: Expr = parse_quote!({
                                    let mut #acc = Set::new();
                                    for #x in #it { #acc.insert(*#x); }
                                    #acc
                                });
                                *init.expr = ne;
                                self.log("N8h-copied-collect-to-set-loop", sp);
                            }
                        }
                    }
                }
            }
        }
        if let Pat::Ident(pi) = &l.pat {
            if self.collect_as_set.iter().any(|n| pi.ident == n) {
                if let Some(init) = &mut l.init {
                    if let Expr::MethodCall(mc) = &*init.expr {
                        if mc.method == "collect" && mc.args.is_empty() {
                            if let Some(ne) = filter_map_collect_loop(&mc.receiver, true, &mut self.tmp_counter) {
                                let sp = mc.method.span();
                                *init.expr = ne;
                                self.log("N8j-filter_map-collect-to-set-loop", sp);
                            }
                        }
                    }
                }
            }
        }
        if pat_is_some(&l.pat) {
            if let Some(init) = &mut l.init {
                if let Some(ne) = option_map_to_match(&init.expr) {
                    let sp = l.let_token.span;
                    *init.expr = ne;
                    self.log("N7g-option-map-under-some-pattern", sp);
                }
            }
        }
        visit_mut::visit_local_mut(self, l);
    }

    fn visit_expr_mut(&mut self, e: &mut Expr) {
        // N11c (slices): an expression of the enclosing function that the slice receives as a parameter (`subst=self.tasks:rtasks`)
        if !self.subst.is_empty() && matches!(e, Expr::Field(_) | Expr::Path(_)) {
            let t: String = e.to_token_stream().to_string().chars().filter(|c| !c.is_whitespace()).collect();
            if let Some((_, to)) = self.subst.iter().find(|(a, _)| *a == t) {
                *e = to.clone();
                return;
            }
        }
        // pre-order rewrites that change the shape of sub-expressions
        if let Expr::Macro(em) = e {
            let sp = em.mac.path.span();
            if let Some(ne) = self.rewrite_macro(&em.mac, sp) {
                *e = ne;
                // the produced expression is already normalised inside (operands were visited)
                return;
            }
        }
        // N7h: OPT.is_some_and(|p| B) => match OPT { Some(p) => B, None => false }; OPT.is_none_or(|p| B) => ... None => true (definitions)
        if let Expr::MethodCall(mc) = e {
            let nm = mc.method.to_string();
            if (nm == "is_some_and" || nm == "is_none_or") && mc.args.len() == 1 {
                if let Expr::Closure(c) = &mc.args[0] {
                    if c.inputs.len() == 1 && !body_has_return(&c.body) {
                        let sp = mc.method.span();
                        let pat = match c.inputs[0].clone() {
                            Pat::Type(pt) => *pt.pat,
                            p => p,
                        };
                        let body = &c.body;
                        let recv = &mc.receiver;
                        let dflt: Expr = if nm == "is_some_and" { parse_quote!(false) } else { parse_quote!(true) };
                        let ne: Expr = parse_quote!(match #recv { Some(#pat) => #body, None => #dflt });
                        *e = ne;
                        self.log("N7h-is_some_and", sp);
                    }
                }
            }
        }
        // N8k (pre-order, as N8): ITER.find(|p| B) => the first item of ITER for which B holds (p: &Item), as a loop with `break` (definition)
        if let Expr::MethodCall(mc) = e {
            if mc.method == "find" && mc.args.len() == 1 {
                if let Expr::Closure(c) = &mc.args[0] {
                    if c.inputs.len() == 1 && !body_has_return(&c.body) && matches!(&c.inputs[0], Pat::Ident(_)) {
                        let sp = mc.method.span();
                        let pat = c.inputs[0].clone();
                        let body = &c.body;
                        let recv = &mc.receiver;
                        let acc = self.fresh("found");
                        let x = self.fresh("x");
                        let ne: Expr = parse_quote!({
                            let mut #acc = None;
                            for #x in #recv {
                                let #pat = &#x;
                                if #body { #acc = Some(#x); break; }
                            }
                            #acc
                        });
                        *e = ne;
                        self.log("N8k-find-to-loop", sp);
                    }
                }
            }
        }
        // N8m (pre-order, as N8): ITER.find_map(|p| B) => the first `Some` that B yields over the items of ITER, as a loop with `break` (definition)
        if let Expr::MethodCall(mc) = e {
            if mc.method == "find_map" && mc.args.len() == 1 {
                if let Expr::Closure(c) = &mc.args[0] {
                    if c.inputs.len() == 1 && !body_has_return(&c.body) && matches!(&c.inputs[0], Pat::Ident(_)) {
                        let sp = mc.method.span();
                        let pat = c.inputs[0].clone();
                        let body = &c.body;
                        let recv = &mc.receiver;
                        let acc = self.fresh("found");
                        let y = self.fresh("y");
                        let ne: Expr = parse_quote!({
                            let mut #acc = None;
                            for #pat in #recv {
                                let #y = #body;
                                if #y.is_some() { #acc = #y; break; }
                            }
                            #acc
                        });
                        *e = ne;
                        self.log("N8m-find_map-to-loop", sp);
                    }
                }
            }
        }
        // N8r (pre-order, as N8): ITER.map(|p| B).max() => the largest value B yields over the items of ITER, None for no item (definition; the
        // values are of an integer type here, so which of several equal maxima is returned cannot be observed)
        if let Expr::MethodCall(mc) = e {
            if mc.method == "max" && mc.args.is_empty() {
                if let Expr::MethodCall(inner) = &*mc.receiver {
                    if inner.method == "map" && inner.args.len() == 1 {
                        if let Expr::Closure(c) = &inner.args[0] {
                            if c.inputs.len() == 1 && !body_has_return(&c.body) && matches!(&c.inputs[0], Pat::Ident(_)) {
                                let sp = mc.method.span();
                                let pat = c.inputs[0].clone();
                                let body = &c.body;
                                let recv = &inner.receiver;
                                let acc = self.fresh("max");
                                let y = self.fresh("y");
                                let cur = self.fresh("c");
                                // (option acc_type=TYPE: the type of the values, when invariants need it before inference settles it)
                                let accty: Type = syn::parse_str(&format!("Option<{}>", self.acc_type.clone().unwrap_or("_".to_string()))).expect("acc_type");
                                let ne: Expr = parse_quote!({
                                    let mut #acc: #accty = None;
                                    for #pat in #recv {
                                        let #y = #body;
                                        #acc = match #acc { None => Some(#y), Some(#cur) => if #y >= #cur { Some(#y) } else { Some(#cur) } };
                                    }
                                    #acc
                                });
                                *e = ne;
                                self.log("N8r-map-max-to-loop", sp);
                            }
                        }
                    }
                }
            }
        }
        // N8s (pre-order, as N8): ITER.position(|p| B) => the index of the first item of ITER for which B holds, as a counting loop with `break` (definition)
        if let Expr::MethodCall(mc) = e {
            if mc.method == "position" && mc.args.len() == 1 {
                if let Expr::Closure(c) = &mc.args[0] {
                    if c.inputs.len() == 1 && !body_has_return(&c.body) && matches!(&c.inputs[0], Pat::Ident(_)) {
                        let sp = mc.method.span();
                        let pat = c.inputs[0].clone();
                        let body = &c.body;
                        let recv = &mc.receiver;
                        let acc = self.fresh("pos");
                        let i = self.fresh("i");
                        let ne: Expr = parse_quote!({
                            let mut #acc = None;
                            let mut #i: usize = 0;
                            for #pat in #recv {
                                if #body { #acc = Some(#i); break; }
                                #i += 1;
                            }
                            #acc
                        });
                        *e = ne;
                        self.log("N8s-position-to-loop", sp);
                    }
                }
            }
        }
        // N8p (pre-order, as N8): ITER.fold(INIT, |acc, x| B) => { let mut acc = INIT; for x in ITER { acc = B; } acc } (definition of fold)
        if let Expr::MethodCall(mc) = e {
            if mc.method == "fold" && mc.args.len() == 2 {
                if let Expr::Closure(c) = &mc.args[1] {
                    if c.inputs.len() == 2 && !body_has_return(&c.body) && matches!(&c.inputs[0], Pat::Ident(_)) && matches!(&c.inputs[1], Pat::Ident(_)) {
                        let sp = mc.method.span();
                        let accp = c.inputs[0].clone();
                        let acc = match &accp {
                            Pat::Ident(pi) => pi.ident.clone(),
                            _ => unreachable!(),
                        };
                        let pat = c.inputs[1].clone();
                        let body = &c.body;
                        let recv = &mc.receiver;
                        let init = &mc.args[0];
                        // (option acc_type=TYPE: the accumulator's type, which `fold` infers from its context)
                        let ne: Expr = match &self.acc_type {
                            Some(t) => {
                                let ty: Type = syn::parse_str(t).expect("acc_type");
                                parse_quote!({
                                    let mut #acc: #ty = #init;
                                    for #pat in #recv {
                                        #acc = #body;
                                    }
                                    #acc
                                })
                            }
                            None => parse_quote!({
                                let mut #acc = #init;
                                for #pat in #recv {
                                    #acc = #body;
                                }
                                #acc
                            }),
                        };
                        *e = ne;
                        self.log("N8p-fold-to-loop", sp);
                    }
                }
            }
        }
        // N8 (pre-order so that the produced loop gets the for-loop rules N8e/N9/N18): ITER.for_each(|p| B) => for p in ITER { B }
        if let Expr::MethodCall(mc) = e {
            if mc.method == "for_each" && mc.args.len() == 1 {
                if let Expr::Closure(c) = &mc.args[0] {
                    if c.inputs.len() == 1 && !body_has_return(&c.body) && matches!(&c.inputs[0], Pat::Ident(_) | Pat::Type(_) | Pat::Wild(_)) {
                        let sp = mc.method.span();
                        let pat = match c.inputs[0].clone() {
                            Pat::Type(pt) => *pt.pat,
                            Pat::Wild(_) => {
                                let id = self.fresh("u");
                                parse_quote!(#id)
                            }
                            p => p,
                        };
                        if matches!(pat, Pat::Ident(_)) {
                            let body = &c.body;
                            let recv = &mc.receiver;
                            let blk: Block = match &**body {
                                Expr::Block(b) if b.label.is_none() => b.block.clone(),
                                other => parse_quote!({ #other; }),
                            };
                            let ne: Expr = parse_quote!(for #pat in #recv #blk);
                            *e = ne;
                            self.log("N8-for_each-to-for", sp);
                        }
                    }
                }
            }
        }
        if let Expr::Let(l) = e {
            if pat_is_some(&l.pat) {
                if let Some(ne) = option_map_to_match(&l.expr) {
                    let sp = l.let_token.span;
                    *l.expr = ne;
                    self.log("N7g-option-map-under-some-pattern", sp);
                }
            }
        }
        // N10b (option await_yields=NAME): a suspension point is a yield to the other tasks of the single-threaded server: `E.await` =>
        // `{ let a = E; hq_yield(&mut *NAME); hq_ready(a) }` - NAME is the handle of the shared state (its ghost epoch advances, its
        // content is arbitrary afterwards), `hq_ready` is the stand-in future's output
        if let Expr::Await(aw) = e {
            if let Some(name) = &self.await_yields {
                let sp = aw.await_token.span;
                let base = (*aw.base).clone();
                let nm = Ident::new(name, Span::call_site());
                let a = self.fresh("aw");
                let ne: Expr = parse_quote!({ let #a = #base; hq_yield(&mut *#nm); hq_ready(#a) });
                *e = ne;
                self.log("N10b-await-as-yield", sp);
            }
        }
        // N8g4 (pre-order): the map entry API used as a match,
        //   match M.entry(K) { Entry::Vacant(e) => A, Entry::Occupied(mut e) => B }
        // is its definition over the map: `if !M.contains_key(&k) { A } else { B }` with `e.insert(V)` = `M.insert(k, V)`,
        // `e.get_mut()` / `e.get()` = the value stored under k, `e.remove()` = `M.remove(&k)` (k: Copy, evaluated once)
        if let Expr::Match(m) = e {
            if let Expr::MethodCall(en) = &*m.expr {
                if en.method == "entry" && en.args.len() == 1 && m.arms.len() == 2 {
                    let arm_kind = |a: &Arm| -> Option<(String, Option<Ident>)> {
                        if a.guard.is_some() { return None; }
                        if let Pat::TupleStruct(ts) = &a.pat {
                            let last = ts.path.segments.last()?.ident.to_string();
                            if (last == "Vacant" || last == "Occupied") && ts.elems.len() == 1 {
                                return match &ts.elems[0] {
                                    Pat::Ident(pi) if pi.subpat.is_none() && pi.by_ref.is_none() => Some((last, Some(pi.ident.clone()))),
                                    Pat::Wild(_) => Some((last, None)),
                                    _ => None,
                                };
                            }
                        }
                        None
                    };
                    if let (Some(k0), Some(k1)) = (arm_kind(&m.arms[0]), arm_kind(&m.arms[1])) {
                        if k0.0 != k1.0 {
                            let sp = en.method.span();
                            let recv = (*en.receiver).clone();
                            let key = en.args[0].clone();
                            let kk = self.fresh("k");
                            struct EntrySubst { e: Ident, recv: Expr, k: Ident, bad: bool }
                            impl VisitMut for EntrySubst {
                                fn visit_expr_mut(&mut self, x: &mut Expr) {
                                    if let Expr::MethodCall(mc) = x {
                                        if matches!(&*mc.receiver, Expr::Path(p) if p.path.is_ident(&self.e)) {
                                            for a in mc.args.iter_mut() { self.visit_expr_mut(a); }
                                            let recv = &self.recv;
                                            let k = &self.k;
                                            let name = mc.method.to_string();
                                            let ne: Option<Expr> = match (name.as_str(), mc.args.len()) {
                                                ("insert", 1) => { let v = &mc.args[0]; Some(parse_quote!(#recv.insert(#k, #v))) }
                                                ("get_mut", 0) | ("into_mut", 0) => Some(parse_quote!(#recv.get_mut(&#k).unwrap())),
                                                ("get", 0) => Some(parse_quote!(#recv.get(&#k).unwrap())),
                                                ("remove", 0) => Some(parse_quote!(#recv.remove(&#k).unwrap())),
                                                _ => { self.bad = true; None }
                                            };
                                            if let Some(ne) = ne { *x = ne; }
                                            return;
                                        }
                                    } else if let Expr::Path(p) = x {
                                        if p.path.is_ident(&self.e) { self.bad = true; }
                                    }
                                    visit_mut::visit_expr_mut(self, x);
                                }
                            }
                            let mut bodies: Vec<(String, Expr)> = vec![];
                            let mut bad = false;
                            for (arm, kind) in m.arms.iter().zip([k0, k1]) {
                                let mut b = (*arm.body).clone();
                                if let Some(id) = kind.1 {
                                    let mut sub = EntrySubst { e: id, recv: recv.clone(), k: kk.clone(), bad: false };
                                    sub.visit_expr_mut(&mut b);
                                    bad |= sub.bad;
                                }
                                bodies.push((kind.0, b));
                            }
                            if !bad {
                                let vac = bodies.iter().find(|(k, _)| k == "Vacant").unwrap().1.clone();
                                let occ = bodies.iter().find(|(k, _)| k == "Occupied").unwrap().1.clone();
                                let vb: Block = match vac { Expr::Block(b) if b.label.is_none() => b.block, other => parse_quote!({ #other; }) };
                                let ob: Block = match occ { Expr::Block(b) if b.label.is_none() => b.block, other => parse_quote!({ #other; }) };
                                let ne: Expr = parse_quote!({
                                    let #kk = #key;
                                    if !#recv.contains_key(&#kk) #vb else #ob
                                });
                                *e = ne;
                                self.log("N8g4-entry-match", sp);
                            }
                        }
                    }
                }
            }
        }
        if let Expr::If(i) = e {
            if contains_let(&i.cond) && !matches!(&*i.cond, Expr::Let(_)) {
                let sp = i.if_token.span;
                let ne = self.rewrite_let_chain(i);
                self.log("N4-let-chain", sp);
                *e = ne;
            }
        }
        if let Expr::While(w) = e {
            if contains_let(&w.cond) && !matches!(&*w.cond, Expr::Let(_)) {
                self.errors.push("let-chain in while condition".into());
            }
        }
        match e {
            Expr::Assign(a) => {
                self.lvalue_depth += 1;
                self.visit_expr_mut(&mut a.left);
                self.lvalue_depth -= 1;
                self.visit_expr_mut(&mut a.right);
                self.place_index_diverge(&mut a.left);
            }
            Expr::Binary(b) if is_assign_op(&b.op) => {
                self.lvalue_depth += 1;
                self.visit_expr_mut(&mut b.left);
                self.lvalue_depth -= 1;
                self.visit_expr_mut(&mut b.right);
                self.place_index_diverge(&mut b.left);
            }
            Expr::Reference(r) if r.mutability.is_some() && matches!(&*r.expr, Expr::Path(p) if p.path.get_ident().map(|i| self.deref_params.iter().any(|d| i == d)).unwrap_or(false)) => {
                // N13c: in a slice, a local that was an owned guard (RefMut) is a `&mut` parameter: `&mut X` (deref coercion of
                // the guard) becomes the explicit reborrow `&mut *X`
                let sp = r.and_token.span;
                let inner = r.expr.clone();
                *r.expr = parse_quote!(*#inner);
                self.log("N13c-reborrow-guard-param", sp);
            }
            Expr::Reference(r) if r.mutability.is_some() => {
                self.lvalue_depth += 1;
                self.visit_expr_mut(&mut r.expr);
                self.lvalue_depth -= 1;
                // N14: `&mut E[i]` in diverge mode => `E.hq_index_mut(i)` (out of range diverges)
                if self.diverge {
                    if let Expr::Index(ix) = &*r.expr {
                        if !matches!(&*ix.index, Expr::Range(_)) {
                            let sp = ix.bracket_token.span.open();
                            let base = &ix.expr;
                            let idx = &ix.index;
                            let ne: Expr = parse_quote!((#base).hq_index_mut(#idx));
                            *e = ne;
                            self.log("N14-index-write-diverge", sp);
                        }
                    }
                }
            }
            Expr::MethodCall(mc) => {
                // receivers are read optimistically (a mutating method on a rewritten read fails to compile => exit 2)
                let mutating = matches!(mc.method.to_string().as_str(), "push" | "insert" | "remove" | "clear" | "extend" | "pop" | "retain"
                    | "get_mut" | "iter_mut" | "entry" | "take" | "as_mut" | "push_back" | "pop_front" | "truncate" | "sort" | "sort_unstable_by_key" | "drain");
                if mutating { self.lvalue_depth += 1; }
                self.visit_expr_mut(&mut mc.receiver);
                if mutating { self.lvalue_depth -= 1; }
                if mutating {
                    // N14: `E[i].push(x)` in diverge mode: the place is fetched through hq_index_mut (out of range diverges)
                    self.place_index_diverge(&mut mc.receiver);
                }
                let saved = self.lvalue_depth;
                self.lvalue_depth = 0;
                for a in mc.args.iter_mut() {
                    self.visit_expr_mut(a);
                }
                self.lvalue_depth = saved;
            }
            Expr::Index(ix) => {
                self.visit_expr_mut(&mut ix.expr);
                let saved = self.lvalue_depth;
                self.lvalue_depth = 0;
                self.visit_expr_mut(&mut ix.index);
                self.lvalue_depth = saved;
            }
            Expr::Call(_) | Expr::Closure(_) | Expr::Block(_) | Expr::If(_) | Expr::Match(_) | Expr::Macro(_) => {
                let saved = self.lvalue_depth;
                self.lvalue_depth = 0;
                visit_mut::visit_expr_mut(self, e);
                self.lvalue_depth = saved;
            }
            _ => visit_mut::visit_expr_mut(self, e),
        }
        // N8e (reference form): `for P in &mut R { B }` is `for P in R.iter_mut() { B }` (IntoIterator for &mut Vec); option name `&mut`
        if let Expr::ForLoop(f) = e {
            if let Expr::Reference(r) = &*f.expr {
                if r.mutability.is_some() && self.keyed_mut_iter.iter().any(|(m, _, _)| m == "&mut") {
                    let inner = (*r.expr).clone();
                    let ne: Expr = parse_quote!(#inner.iter_mut());
                    *f.expr = ne;
                    for x in self.keyed_mut_iter.iter_mut() { if x.0 == "&mut" { x.0 = "iter_mut".to_string(); } }
                }
            }
        }
        // N8e: `for P in R.values_mut_like() { B }` => iterate a snapshot of the keys and fetch each value mutably
        if let Expr::ForLoop(f) = e {
            if let Expr::MethodCall(mc) = &*f.expr {
                let name = mc.method.to_string();
                if let Some((_, keys_fn, getter)) = self.keyed_mut_iter.iter().find(|(m, _, _)| *m == name).cloned() {
                    let sp = f.for_token.span;
                    let recv = mc.receiver.clone();
                    let pat = f.pat.clone();
                    let body_stmts = f.body.stmts.clone();
                    let keys_fn = Ident::new(&keys_fn, sp);
                    let kv = self.fresh("keys");
                    let k = self.fresh("k");
                    let ne: Expr = if let Some(fname) = getter.strip_prefix("fn.") {
                        let g = Ident::new(fname, sp);
                        let rm = self.mut_ref_of(&recv);
                        let rs = self.shared_ref_of(&recv);
                        parse_quote!({
                            let #kv = #keys_fn(#rs);
                            for #k in #kv.iter() {
                                let #pat = #g(#rm, *#k);
                                #(#body_stmts)*
                            }
                        })
                    } else {
                        let getter = Ident::new(&getter, sp);
                        parse_quote!({
                            let #kv = #keys_fn(&*#recv);
                            for #k in #kv.iter() {
                                let #pat = #recv.#getter(*#k);
                                #(#body_stmts)*
                            }
                        })
                    };
                    *e = ne;
                    self.log("N8e-keyed-mut-iteration", sp);
                    return;
                }
            }
        }
        // post-order rewrites
        match e {
            Expr::ForLoop(f) => {
                // N18: Verus' for-loops have no `continue`: `if c { A; continue; } REST` => `if c { A } else { REST }`
                if block_has_continue(&f.body) {
                    let sp = f.for_token.span;
                    match eliminate_continue(std::mem::take(&mut f.body.stmts)) {
                        Ok(st) => {
                            f.body.stmts = st;
                            self.log("N18-continue-to-else", sp);
                        }
                        Err(e) => self.errors.push(e),
                    }
                }
                // N7b: `for &x in E { B }` => `for x in E { let x = *x; B }`
                if let Pat::Reference(pr) = &*f.pat {
                    if pr.mutability.is_none() {
                        if let Pat::Ident(pi) = &*pr.pat {
                            let id = pi.ident.clone();
                            let sp = f.for_token.span;
                            *f.pat = parse_quote!(#id);
                            f.body.stmts.insert(0, parse_quote!(let #id = *#id;));
                            self.log("N7b-for-ref-pattern", sp);
                        }
                    }
                }
                self.n9c(f);
                {
                    // N8f (general form): consuming iteration over a map named by its token text (option into_vec=EXPR)
                    let t: String = f.expr.to_token_stream().to_string().chars().filter(|c| !c.is_whitespace()).collect();
                    if !matches!(&*f.expr, Expr::Path(_)) && self.into_vec.iter().any(|x| *x == t) {
                        let sp = f.for_token.span;
                        let inner = f.expr.clone();
                        *f.expr = parse_quote!(hq_map_into_vec(#inner));
                        self.log("N8f-consume-map-via-vec", sp);
                    }
                }
                {
                    // N8i (loop form, option set_into_vec=NAME): `for P in NAME.into_iter()` over a hash set => over hq_set_into_vec(NAME)
                    // (every element exactly once, in an unspecified order)
                    let t: String = f.expr.to_token_stream().to_string().chars().filter(|c| !c.is_whitespace()).collect();
                    if let Some(nm) = self.set_into_vec.iter().find(|x| format!("{}.into_iter()", x) == t || **x == t).cloned() {
                        let sp = f.for_token.span;
                        let id: Expr = syn::parse_str(&nm).expect("set_into_vec");
                        *f.expr = parse_quote!(hq_set_into_vec(#id));
                        self.log("N8i-consume-set-via-vec", sp);
                    }
                }
                {
                    // N9b (general form): `for P in EXPR` with EXPR: &Collection named by its token text => `for P in EXPR.iter()`
                    let t: String = f.expr.to_token_stream().to_string().chars().filter(|c| !c.is_whitespace()).collect();
                    if !matches!(&*f.expr, Expr::Path(_)) && self.iter_on.iter().any(|x| *x == t) {
                        let sp = f.for_token.span;
                        let inner = f.expr.clone();
                        *f.expr = parse_quote!(#inner.iter());
                        self.log("N9b-for-in-ref-expr", sp);
                    }
                }
                if let Expr::Path(p) = &*f.expr {
                    let n = p.path.segments.iter().map(|s| s.ident.to_string()).collect::<Vec<_>>().join("::");
                    if self.iter_on.iter().any(|x| *x == n) {
                        // N9b: `for P in r` with r: &Collection  =>  `for P in r.iter()` (IntoIterator for &C is C::iter)
                        let sp = f.for_token.span;
                        let inner = f.expr.clone();
                        *f.expr = parse_quote!(#inner.iter());
                        self.log("N9b-for-in-ref-var", sp);
                    } else if self.into_vec.iter().any(|x| *x == n) {
                        let sp = f.for_token.span;
                        let inner = f.expr.clone();
                        *f.expr = parse_quote!(hq_map_into_vec(#inner));
                        self.log("N8f-consume-map-via-vec", sp);
                    }
                }
                if let Expr::Reference(r) = &*f.expr {
                    let inner = &r.expr;
                    let sp = f.for_token.span;
                    let ne: Expr = if r.mutability.is_some() {
                        parse_quote!((#inner).iter_mut())
                    } else {
                        parse_quote!((#inner).iter())
                    };
                    // drop redundant parens around simple paths / field accesses
                    let ne = simplify_parens(ne);
                    *f.expr = ne;
                    self.log("N9-for-in-ref", sp);
                }
            }
            Expr::Call(c)
                if matches!(&*c.func, Expr::Path(p) if p.path.segments.len() == 2
                    && p.path.segments[1].ident == "from_iter"
                    && (p.path.segments[0].ident == "Set" || p.path.segments[0].ident == "HashSet"))
                    && c.args.len() == 1
                    && matches!(&c.args[0], Expr::Array(_)) =>
            {
                // N8c: Set::from_iter([a, b, ..]) => { let mut s = Set::new(); s.insert(a); ..; s }
                if let Expr::Array(arr) = &c.args[0] {
                    let sp = c.paren_token.span.open();
                    let elems: Vec<&Expr> = arr.elems.iter().collect();
                    let tmp = self.fresh("set");
                    let ne: Expr = parse_quote!({
                        let mut #tmp = Set::new();
                        #( #tmp.insert(#elems); )*
                        #tmp
                    });
                    *e = ne;
                    self.log("N8c-set-from_iter-array", sp);
                }
            }
            // N8g3: `*M.entry(K).or_insert_with(|| B)` (value read of the entry API; B may update other fields) =>
            //       `{ let k = K; match M.get(&k) { Some(v) => *v, None => { let v = B; M.insert(k, v); v } } }` (definition; V: Copy)
            Expr::Unary(u) if matches!(u.op, UnOp::Deref(_)) && matches!(&*u.expr, Expr::MethodCall(mc) if mc.method == "or_insert_with" && mc.args.len() == 1
                && matches!(&mc.args[0], Expr::Closure(c) if c.inputs.is_empty() && !body_has_return(&c.body))
                && matches!(&*mc.receiver, Expr::MethodCall(en) if en.method == "entry" && en.args.len() == 1)) => {
                if let Expr::MethodCall(mc) = &*u.expr {
                    if let (Expr::Closure(c), Expr::MethodCall(en)) = (&mc.args[0], &*mc.receiver) {
                        let sp = mc.method.span();
                        let m = &en.receiver;
                        let k = &en.args[0];
                        let b = &c.body;
                        let kk = self.fresh("k");
                        let vv = self.fresh("v");
                        let ne: Expr = parse_quote!({
                            let #kk = #k;
                            match #m.get(&#kk) {
                                Some(#vv) => *#vv,
                                None => { let #vv = #b; #m.insert(#kk, #vv); #vv }
                            }
                        });
                        *e = ne;
                        self.log("N8g3-entry-or_insert_with-value", sp);
                    }
                }
            }
            Expr::Call(c) if !self.rename_calls.is_empty() => {
                if let Expr::Path(p) = &mut *c.func {
                    if let Some(last) = p.path.segments.last_mut() {
                        let n = last.ident.to_string();
                        if let Some((_, to)) = self.rename_calls.iter().find(|(k, _)| *k == n) {
                            last.ident = Ident::new(to, last.ident.span());
                        }
                    }
                }
            }
            // N15e: `X.clone_from(&Y)` => `X = Y.clone()` (what Clone::clone_from means; only the reuse of X's allocation is dropped)
            Expr::MethodCall(mc) if mc.method == "clone_from" && mc.args.len() == 1 && matches!(&mc.args[0], Expr::Reference(r) if r.mutability.is_none()) => {
                let sp = mc.method.span();
                let x = &mc.receiver;
                let y = match &mc.args[0] { Expr::Reference(r) => r.expr.clone(), _ => unreachable!() };
                let ne: Expr = parse_quote!(#x = #y.clone());
                *e = ne;
                self.log("N15e-clone_from", sp);
            }
            // N2f (option float_casts=TYPE): `E as f64` with E of integer type TYPE is a pure but uninterpreted function of E
            // (`hq_TYPE_as_f64`, declared in the unit); Verus gives a cast to a float no meaning at all
            Expr::Cast(c) if self.float_casts.is_some() && matches!(&*c.ty, Type::Path(tp) if tp.path.is_ident("f64")) => {
                let f = Ident::new(&format!("hq_{}_as_f64", self.float_casts.as_ref().unwrap()), Span::call_site());
                let inner = &c.expr;
                let ne: Expr = parse_quote!(#f(#inner));
                *e = ne;
                self.log("N2f-int-as-f64", Span::call_site());
            }
            Expr::MethodCall(mc) => {
                let name = mc.method.to_string();
                let sp = mc.method.span();
                {
                    // keys are either `method` or `recv.method` (receiver text must end with `recv`)
                    let recv_txt: String = mc.receiver.to_token_stream().to_string().chars().filter(|c| !c.is_whitespace()).collect();
                    let hit = self.rename_calls.iter().find(|(k, _)| match k.rsplit_once('.') {
                        Some((r, m)) => m == name && recv_txt.ends_with(r),
                        None => *k == name,
                    });
                    if let Some((_, to)) = hit {
                        mc.method = Ident::new(to, sp);
                    }
                }
                // N8q (option seq_args=METHOD,..: methods that consume an `impl IntoIterator` argument as a sequence): an argument
                // `ITER.map(|p| B)` is passed as the Vec of the values it yields (push loop; laziness dropped)
                if self.seq_args.iter().any(|m| *m == name) {
                    for a in mc.args.iter_mut() {
                        let ne: Option<Expr> = match &*a {
                            Expr::MethodCall(inner) if inner.method == "map" && inner.args.len() == 1 => match &inner.args[0] {
                                Expr::Closure(c) if c.inputs.len() == 1 && !body_has_return(&c.body) => {
                                    let it = &inner.receiver;
                                    let pat = match c.inputs[0].clone() {
                                        Pat::Type(pt) => *pt.pat,
                                        p => p,
                                    };
                                    let body = &c.body;
                                    self.tmp_counter += 1;
                                    let acc = Ident::new(&format!("__hq_seq{}", self.tmp_counter), sp);
                                    Some(parse_quote!({ let mut #acc = Vec::new(); for #pat in #it { #acc.push(#body); } #acc }))
                                }
                                _ => None,
                            },
                            _ => None,
                        };
                        if let Some(ne) = ne {
                            *a = ne;
                            self.log("N8q-map-argument-to-vec", sp);
                        }
                    }
                }
                match name.as_str() {
                    // N2 (option opaque_into=1): `X.into()` is some value of the target type (an unconstrained conversion)
                    "into" if mc.args.is_empty() && self.opaque_into => {
                        let r = (*mc.receiver).clone();
                        *e = parse_quote!(hq_into(#r));
                        self.log("N2-opaque-into", sp);
                        return;
                    }
                    "unwrap" if mc.args.is_empty() => {
                        self.site("unwrap", sp);
                        if self.diverge {
                            mc.method = Ident::new("hq_unwrap", sp);
                            self.log("N14-unwrap-diverge", sp);
                        }
                    }
                    "unwrap_or_else" if mc.args.len() == 1 && closure_only_panics(&mc.args[0]) => {
                        // definitional: a closure that only panics makes unwrap_or_else an unwrap
                        self.site("unwrap", sp);
                        mc.args.clear();
                        if self.diverge {
                            mc.method = Ident::new("hq_unwrap", sp);
                            self.log("N14-unwrap_or_else-panic-diverge", sp);
                        } else {
                            mc.method = Ident::new("unwrap", sp);
                            self.log("N3-unwrap_or_else-panic", sp);
                        }
                    }
                    "or_insert" if self.entry_place && mc.args.len() == 1 && matches!(&*mc.receiver, Expr::MethodCall(en) if en.method == "entry" && en.args.len() == 1) => {
                        // N8g2: `M.entry(K).or_insert(V)` as a place => hq_map_entry_or_insert(&mut M, K, V)
                        if let Expr::MethodCall(en) = &*mc.receiver {
                            let m = &en.receiver;
                            let k = &en.args[0];
                            let v = &mc.args[0];
                            let ne: Expr = parse_quote!(hq_map_entry_or_insert(&mut #m, #k, #v));
                            *e = ne;
                            self.log("N8g2-entry-or_insert", sp);
                        }
                    }
                    "or_default" if self.entry_place && mc.args.is_empty() && matches!(&*mc.receiver, Expr::MethodCall(en) if en.method == "entry" && en.args.len() == 1) => {
                        // N8g2: `M.entry(K).or_default()` (used as a place: `.field.push(..)`, `.insert(..)`) => hq_map_entry_or_default(&mut M, K)
                        if let Expr::MethodCall(en) = &*mc.receiver {
                            let m = &en.receiver;
                            let k = &en.args[0];
                            let ne: Expr = parse_quote!(hq_map_entry_or_default(&mut #m, #k));
                            *e = ne;
                            self.log("N8g2-entry-or_default", sp);
                        }
                    }
                    "unwrap_or_else" if mc.args.len() == 1 && matches!(&mc.args[0], Expr::Closure(c) if c.inputs.is_empty() && !body_has_return(&c.body)) => {
                        // N7f: OPT.unwrap_or_else(|| D) => match OPT { Some(x) => x, None => D } (D stays lazily evaluated)
                        if let Expr::Closure(c) = &mc.args[0] {
                            let d = &c.body;
                            let recv = &mc.receiver;
                            let x = self.fresh("some");
                            let ne: Expr = parse_quote!(match #recv { Some(#x) => #x, None => #d });
                            *e = ne;
                            self.log("N7f-unwrap_or_else", sp);
                        }
                    }
                    "collect" if mc.args.is_empty() && matches!(&*mc.receiver, Expr::MethodCall(i) if i.method == "into_iter" && i.args.is_empty()) => {
                        // N8i: SET.into_iter().collect() (into a Vec) => hq_set_into_vec(SET)
                        if let Expr::MethodCall(inner) = &*mc.receiver {
                            let x = &inner.receiver;
                            let ne: Expr = parse_quote!(hq_set_into_vec(#x));
                            *e = ne;
                            self.log("N8i-set-into_iter-collect", sp);
                        }
                    }
                    "collect" if mc.args.is_empty() && matches!(&*mc.receiver, Expr::MethodCall(i) if i.method == "filter_map" && i.args.len() == 1
                        && matches!(&i.args[0], Expr::Closure(c) if c.inputs.len() == 1 && !body_has_return(&c.body))) => {
                        // N8j: ITER.filter_map(|p| B).collect() (into a Vec) => push loop over ITER keeping the `Some` results in order (definition)
                        if let Expr::MethodCall(inner) = &*mc.receiver {
                            if let Expr::Closure(c) = &inner.args[0] {
                                let it = &inner.receiver;
                                let pat = match c.inputs[0].clone() {
                                    Pat::Type(pt) => *pt.pat,
                                    p => p,
                                };
                                let body = &c.body;
                                let acc = self.fresh("vec");
                                let v = self.fresh("v");
                                // (option acc_type=TYPE: the accumulator's type, when invariants need it before inference settles it)
                                let ne: Expr = match &self.acc_type {
                                    Some(t) => {
                                        let ty: Type = syn::parse_str(t).expect("acc_type");
                                        parse_quote!({
                                            let mut #acc: #ty = Vec::new();
                                            for #pat in #it {
                                                match #body { Some(#v) => { #acc.push(#v); } None => {} }
                                            }
                                            #acc
                                        })
                                    }
                                    None => parse_quote!({
                                        let mut #acc = Vec::new();
                                        for #pat in #it {
                                            match #body { Some(#v) => { #acc.push(#v); } None => {} }
                                        }
                                        #acc
                                    }),
                                };
                                *e = ne;
                                self.log("N8j-filter_map-collect-to-loop", sp);
                            }
                        }
                    }
                    "collect" if mc.args.is_empty() && self.map_collect && matches!(&*mc.receiver, Expr::MethodCall(i) if i.method == "map" && i.args.len() == 1
                        && matches!(&i.args[0], Expr::Closure(c) if c.inputs.len() == 1 && !body_has_return(&c.body))) => {
                        // N8n (option map_collect=1, for functions that collect such chains into a Vec): ITER.map(|p| B).collect() => push loop over ITER (definition)
                        if let Expr::MethodCall(inner) = &*mc.receiver {
                            if let Expr::Closure(c) = &inner.args[0] {
                                // N8i (option set_into_vec=NAME): a consumed hash set is iterated through hq_set_into_vec
                                let it_txt: String = inner.receiver.to_token_stream().to_string().chars().filter(|c| !c.is_whitespace()).collect();
                                let it_set: Option<Expr> = self.set_into_vec.iter().find(|x| format!("{}.into_iter()", x) == it_txt)
                                    .map(|nm| { let id: Expr = syn::parse_str(nm).expect("set_into_vec"); parse_quote!(hq_set_into_vec(#id)) });
                                let it_owned: Expr = it_set.unwrap_or_else(|| (*inner.receiver).clone());
                                let it = &it_owned;
                                let pat = match c.inputs[0].clone() {
                                    Pat::Type(pt) => *pt.pat,
                                    p => p,
                                };
                                let body = &c.body;
                                let acc = self.fresh("vec");
                                let ne: Expr = match &self.acc_type {
                                    Some(t) => {
                                        let ty: Type = syn::parse_str(t).expect("acc_type");
                                        parse_quote!({ let mut #acc: #ty = Vec::new(); for #pat in #it { #acc.push(#body); } #acc })
                                    }
                                    None => parse_quote!({ let mut #acc = Vec::new(); for #pat in #it { #acc.push(#body); } #acc }),
                                };
                                *e = ne;
                                self.log("N8n-map-collect-to-loop", sp);
                            }
                        }
                    }
                    "extend" if mc.args.len() == 1 && is_copied_iter(&mc.args[0]) && self.extend_with.is_some() => {
                        // N8l: X.extend(ITER.copied()) => for x in ITER { X.M(*x); } with M = push (Vec) / insert (sets), chosen per receiver text
                        // by `extend_with=RECV:M,...` (definition of Extend for these collections: one element at a time, in iteration order)
                        let recv_txt: String = mc.receiver.to_token_stream().to_string().chars().filter(|c| !c.is_whitespace()).collect();
                        let m = self.extend_with.as_ref().unwrap().iter().find(|(r, _)| *r == recv_txt).map(|(_, m)| m.clone());
                        if let (Some(m), Expr::MethodCall(inner)) = (m, &mc.args[0]) {
                            let it = &inner.receiver;
                            let x = self.fresh("x");
                            let recv = &mc.receiver;
                            let meth = Ident::new(&m, sp);
                            let ne: Expr = parse_quote!(for #x in #it { #recv.#meth(*#x); });
                            *e = ne;
                            self.log("N8l-extend-copied-to-loop", sp);
                        }
                    }
                    "collect" if mc.args.is_empty() && is_copied_iter(&mc.receiver) && self.copied_collect_as.is_some() => {
                        // N8h (constructor form, option copied_collect_as=TYPE): ITER.copied().collect() (into TYPE, by inference) => insert loop
                        if let Expr::MethodCall(inner) = &*mc.receiver {
                            let it = &inner.receiver;
                            let acc = self.fresh("set");
                            let x = self.fresh("x");
                            let ty: syn::Path = syn::parse_str(self.copied_collect_as.as_ref().unwrap()).expect("copied_collect_as");
                            let ne: Expr = parse_quote!({
                                let mut #acc: #ty<_> = Default::default();
                                for #x in #it { #acc.insert(*#x); }
                                #acc
                            });
                            *e = ne;
                            self.log("N8h-copied-collect-to-set-loop", sp);
                        }
                    }
                    "collect" if mc.args.is_empty() && is_copied_iter(&mc.receiver) => {
                        // N8h: ITER.copied().collect() (into a Vec) => push loop
                        if let Expr::MethodCall(inner) = &*mc.receiver {
                            let it = &inner.receiver;
                            let acc = self.fresh("vec");
                            let x = self.fresh("x");
                            let ne: Expr = parse_quote!({
                                let mut #acc = Vec::new();
                                for #x in #it { #acc.push(*#x); }
                                #acc
                            });
                            *e = ne;
                            self.log("N8h-copied-collect-to-loop", sp);
                        }
                    }
                    "expect" if mc.args.len() == 1 => {
                        self.site("expect", sp);
                        mc.args.clear();
                        if self.diverge {
                            mc.method = Ident::new("hq_unwrap", sp);
                            self.log("N14-expect-diverge", sp);
                        } else {
                            mc.method = Ident::new("unwrap", sp);
                            self.log("N3-expect-strip-msg", sp);
                        }
                    }
                    "copied" | "cloned" if mc.args.is_empty() && self.copied_to_map => {
                        let recv = &mc.receiver;
                        let ne: Expr = parse_quote!(#recv.map(|__hq_x| *__hq_x));
                        *e = ne;
                        self.log("N7-copied-to-map", sp);
                    }
                    "into" if mc.args.is_empty() && matches!(&*mc.receiver, Expr::MethodCall(i) if i.method == "as_ref" && i.args.is_empty()) => {
                        // N15c: `X.as_ref().into()` (byte slice into Vec<u8>) => hq_bytes_to_vec(X.as_ref())
                        let recv = &mc.receiver;
                        *e = parse_quote!(hq_bytes_to_vec(#recv));
                        self.log("N15c-slice-into-vec", sp);
                    }
                    "to_string" | "to_owned" | "into" if mc.args.is_empty() => {
                        if let Expr::Lit(ExprLit { lit: Lit::Str(_), .. }) = &*mc.receiver {
                            *e = parse_quote!(hq_format());
                            self.log("N15-strlit-opaque", sp);
                        } else if let Expr::Path(p) = &*mc.receiver {
                            let n = p.path.segments.iter().map(|s| s.ident.to_string()).collect::<Vec<_>>().join("::");
                            if self.str_params.iter().any(|x| *x == n) {
                                let recv = &mc.receiver;
                                *e = parse_quote!(hq_str_to_string(#recv));
                                self.log("N15b-str-to_string", sp);
                            }
                        } else if mc.method == "to_string" {
                            // N15d (option string_exprs=EXPR,..: expressions declared to be of type String): `S.to_string()` on a String is `S.clone()`
                            // (std specialises ToString for String to a copy of the string)
                            let recv = &mc.receiver;
                            let txt = quote::quote!(#recv).to_string().replace(' ', "");
                            if self.string_exprs.iter().any(|x| x.replace(' ', "") == txt) {
                                *e = parse_quote!(#recv.clone());
                                self.log("N15d-string-to_string-is-clone", sp);
                            }
                        }
                    }
                    "all" | "any" if mc.args.len() == 1 => {
                        // N8b: definitional expansion of Iterator::all / Iterator::any into a loop
                        if let Expr::Closure(c) = &mc.args[0] {
                            if c.inputs.len() == 1 && !body_has_return(&c.body) {
                                let pat = match c.inputs[0].clone() {
                                    Pat::Type(pt) => *pt.pat,
                                    p => p,
                                };
                                let body = &c.body;
                                let recv = &mc.receiver;
                                let acc = self.fresh(if name == "all" { "all" } else { "any" });
                                let ne: Expr = if name == "all" {
                                    parse_quote!({
                                        let mut #acc = true;
                                        for #pat in #recv {
                                            if !(#body) { #acc = false; break; }
                                        }
                                        #acc
                                    })
                                } else {
                                    parse_quote!({
                                        let mut #acc = false;
                                        for #pat in #recv {
                                            if #body { #acc = true; break; }
                                        }
                                        #acc
                                    })
                                };
                                *e = ne;
                                self.log("N8b-all-any-to-loop", sp);
                            }
                        }
                    }
                    "push" if mc.args.len() == 1 && is_entry_or_default(&mc.receiver) => {
                        // N8g: M.entry(K).or_default().push(X) => hq_map_push(&mut M, K, X)
                        if let Expr::MethodCall(od) = &*mc.receiver {
                            if let Expr::MethodCall(en) = &*od.receiver {
                                let m = &en.receiver;
                                let k = &en.args[0];
                                let x = &mc.args[0];
                                let ne: Expr = parse_quote!(hq_map_push(&mut #m, #k, #x));
                                *e = ne;
                                self.log("N8g-entry-or_default-push", sp);
                            }
                        }
                    }
                    "unwrap_or" if mc.args.len() == 1 && matches!(&*mc.receiver, Expr::MethodCall(m) if m.method == "map" && m.args.len() == 1 && matches!(&m.args[0], Expr::Closure(c) if c.inputs.len() == 1)) => {
                        // N7d: OPT.map(|p| B).unwrap_or(D) => match OPT { Some(p) => B, None => D }
                        if let Expr::MethodCall(m) = &*mc.receiver {
                            if let Expr::Closure(c) = &m.args[0] {
                                let opt = &m.receiver;
                                let pat = match &c.inputs[0] { Pat::Type(pt) => (*pt.pat).clone(), p => p.clone() };
                                let body = &c.body;
                                let d = &mc.args[0];
                                let ne: Expr = parse_quote!(match #opt { Some(#pat) => #body, None => #d });
                                *e = ne;
                                self.log("N7d-option-map-unwrap_or", sp);
                            }
                        }
                    }
                    "map_or" if mc.args.len() == 2 && self.option_combinators && matches!(&mc.args[1], Expr::Closure(c) if c.inputs.len() == 1 && !body_has_return(&c.body)) => {
                        // N7j (option option_combinators=1): OPT.map_or(D, |p| B) => { let d = D; match OPT { Some(p) => B, None => d } } (D is evaluated first, as in std)
                        if let Expr::Closure(c) = &mc.args[1] {
                            let pat = match c.inputs[0].clone() { Pat::Type(pt) => *pt.pat, p => p };
                            let body = &c.body;
                            let recv = &mc.receiver;
                            let d = &mc.args[0];
                            let dd = Ident::new("__hq_mo_d", Span::call_site());
                            let ne: Expr = parse_quote!({ let #dd = #d; match #recv { Some(#pat) => #body, None => #dd } });
                            *e = ne;
                            self.log("N7j-option-map_or", sp);
                        }
                    }
                    "map" if mc.args.len() == 1 && self.option_combinators && matches!(&mc.args[0], Expr::Closure(c) if c.inputs.len() == 1 && !body_has_return(&c.body)) => {
                        // N7l (option option_combinators=1, for functions whose only `.map` receivers are Options): OPT.map(|p| B) => match OPT { Some(p) => Some(B), None => None }
                        if let Expr::Closure(c) = &mc.args[0] {
                            let pat = match c.inputs[0].clone() { Pat::Type(pt) => *pt.pat, p => p };
                            let body = &c.body;
                            let recv = &mc.receiver;
                            let ne: Expr = parse_quote!(match #recv { Some(#pat) => Some(#body), None => None });
                            *e = ne;
                            self.log("N7l-option-map", sp);
                        }
                    }
                    "filter" if mc.args.len() == 1 && self.option_combinators && matches!(&mc.args[0], Expr::Closure(c) if c.inputs.len() == 1 && !body_has_return(&c.body)) => {
                        // N7k (option option_combinators=1): OPT.filter(|p| B) => match OPT { Some(x) => { let p = &x; if B { Some(x) } else { None } } None => None }
                        if let Expr::Closure(c) = &mc.args[0] {
                            let pat = match c.inputs[0].clone() { Pat::Type(pt) => *pt.pat, p => p };
                            let body = &c.body;
                            let recv = &mc.receiver;
                            let x = Ident::new("__hq_of_x", Span::call_site());
                            let ne: Expr = parse_quote!(match #recv { Some(#x) => { let #pat = &#x; if #body { Some(#x) } else { None } } None => None });
                            *e = ne;
                            self.log("N7k-option-filter", sp);
                        }
                    }
                    "max" if mc.args.len() == 1 && self.option_combinators && matches!(&mc.args[0], Expr::Call(c) if matches!(&*c.func, Expr::Path(p) if p.path.is_ident("Some")) && c.args.len() == 1) => {
                        // N7n (option option_combinators=1): OPT.max(Some(V)) => match OPT { Some(m) => if m > V { Some(m) } else { Some(V) }, None => Some(V) }
                        // (Ord for Option: None < Some(_), Some compares the payloads; `max` returns its argument when the two are equal)
                        if let Expr::Call(c) = &mc.args[0] {
                            let v = &c.args[0];
                            let recv = &mc.receiver;
                            let m = Ident::new("__hq_mx_m", Span::call_site());
                            let vv = Ident::new("__hq_mx_v", Span::call_site());
                            let ne: Expr = parse_quote!({ let #vv = #v; match #recv { Some(#m) => if #m > #vv { Some(#m) } else { Some(#vv) }, None => Some(#vv) } });
                            *e = ne;
                            self.log("N7n-option-max-some", sp);
                        }
                    }
                    "or_else" if mc.args.len() == 1 && self.option_combinators && matches!(&mc.args[0], Expr::Closure(c) if c.inputs.is_empty() && !body_has_return(&c.body)) => {
                        // N7m (option option_combinators=1): OPT.or_else(|| X) => match OPT { Some(x) => Some(x), None => X } (X stays lazily evaluated)
                        if let Expr::Closure(c) = &mc.args[0] {
                            let body = &c.body;
                            let recv = &mc.receiver;
                            let x = Ident::new("__hq_oe_x", Span::call_site());
                            let ne: Expr = parse_quote!(match #recv { Some(#x) => Some(#x), None => #body });
                            *e = ne;
                            self.log("N7m-option-or_else", sp);
                        }
                    }
                    "then_some" if mc.args.len() == 1 => {
                        // N7e: B.then_some(X) => { let b = B; let x = X; if b { Some(x) } else { None } } (X is evaluated in both cases, after B)
                        let b = &mc.receiver;
                        let x = &mc.args[0];
                        // (fixed names in their own block: the shared temporary counter is not advanced)
                        let bb = Ident::new("__hq_ts_b", Span::call_site());
                        let xx = Ident::new("__hq_ts_x", Span::call_site());
                        let ne: Expr = parse_quote!({ let #bb = #b; let #xx = #x; if #bb { Some(#xx) } else { None } });
                        *e = ne;
                        self.log("N7e-then_some", sp);
                    }
                    "then" if mc.args.len() == 1 && matches!(&mc.args[0], Expr::Closure(c) if c.inputs.is_empty() && !body_has_return(&c.body)) => {
                        // N7e2: B.then(|| X) => if B { Some(X) } else { None } (X stays lazily evaluated)
                        if let Expr::Closure(c) = &mc.args[0] {
                            let b = &mc.receiver;
                            let x = &c.body;
                            let ne: Expr = parse_quote!(if #b { Some(#x) } else { None });
                            *e = ne;
                            self.log("N7e2-then-closure", sp);
                        }
                    }
                    "retain" if mc.args.len() == 1 && matches!(&mc.args[0], Expr::Closure(c) if c.inputs.len() == 2 && !body_has_return(&c.body)) => {
                        // N8o: MAP.retain(|k, v| B) (std HashMap: two closure parameters) => visit a snapshot of the keys and remove the entries
                        // for which B is false (definition; the visiting order of a hash map is unspecified and B is evaluated once per entry)
                        if let Expr::Closure(c) = &mc.args[0] {
                            let m = &mc.receiver;
                            let body = &c.body;
                            let keys = self.fresh("keys");
                            let k = self.fresh("k");
                            let keep = self.fresh("keep");
                            let kp = match c.inputs[0].clone() { Pat::Type(pt) => *pt.pat, p => p };
                            let vp = match c.inputs[1].clone() { Pat::Type(pt) => *pt.pat, p => p };
                            let kbind: Vec<Stmt> = if matches!(kp, Pat::Wild(_)) { vec![] } else { vec![parse_quote!(let #kp = #k;)] };
                            let rm = self.mut_ref_of(m);
                            let rs = self.shared_ref_of(m);
                            let vbind: Vec<Stmt> = if matches!(vp, Pat::Wild(_)) { vec![] } else { vec![parse_quote!(let #vp = hq_map_value_mut_r(#rm, #k);)] };
                            let ne: Expr = parse_quote!({
                                let #keys = hq_map_keys_c(#rs);
                                for #k in #keys.iter() {
                                    let #keep = { #(#kbind)* #(#vbind)* #body };
                                    if !#keep { #m.remove(#k); }
                                }
                            });
                            *e = ne;
                            self.log("N8o-map-retain-to-key-loop", sp);
                        }
                    }
                    "retain" | "retain_mut" if mc.args.len() == 1 => {
                        // N8: V.retain(|p| B) / V.retain_mut(|p| B) => index loop with the same visiting order and the same survivors
                        let is_mut = mc.method == "retain_mut";
                        // N18b: an early `return V;` at the end of an else-less `if` at the top level of the closure body is the value of
                        // that branch: `S; if c { A; return V; } R; T` => `S; if c { A; V } else { R; T }`
                        if let Expr::Closure(c) = &mut mc.args[0] {
                            if body_has_return(&c.body) {
                                if let Some(nb) = elim_closure_returns(&c.body) {
                                    *c.body = nb;
                                    self.log("N18b-closure-early-return", sp);
                                }
                            }
                        }
                        if let Expr::Closure(c) = &mc.args[0] {
                            if c.inputs.len() == 1 && !body_has_return(&c.body) {
                                let v = &mc.receiver;
                                let body = &c.body;
                                let i = self.fresh("i");
                                let keep = self.fresh("keep");
                                let bind: Stmt = match &c.inputs[0] {
                                    Pat::Ident(pi) if is_mut => { let id = &pi.ident; parse_quote!(let #id = &mut #v[#i];) }
                                    Pat::Ident(pi) => { let id = &pi.ident; parse_quote!(let #id = &#v[#i];) }
                                    Pat::Reference(r) => { let inner = &r.pat; parse_quote!(let #inner = #v[#i];) }
                                    other => { let o = other; parse_quote!(let #o = &#v[#i];) }
                                };
                                let ne: Expr = parse_quote!({
                                    let mut #i: usize = 0;
                                    while #i < #v.len() {
                                        let #keep = { #bind #body };
                                        if #keep { #i += 1; } else { #v.remove(#i); }
                                    }
                                });
                                *e = ne;
                                self.log("N8-retain-to-index-loop", sp);
                            }
                        }
                    }
                    "for_each" if mc.args.len() == 1 => {
                        if let Expr::Closure(c) = &mc.args[0] {
                            if c.inputs.len() == 1 && !body_has_return(&c.body) {
                                let pat = c.inputs[0].clone();
                                let pat = match pat {
                                    Pat::Type(pt) => *pt.pat,
                                    p => p,
                                };
                                let body = &c.body;
                                let recv = &mc.receiver;
                                let blk: Block = match &**body {
                                    Expr::Block(b) if b.label.is_none() => b.block.clone(),
                                    other => parse_quote!({ #other; }),
                                };
                                let ne: Expr = parse_quote!(for #pat in #recv #blk);
                                *e = ne;
                                self.log("N8-for_each-to-for", sp);
                                if let Expr::ForLoop(f) = e {
                                    self.n9c(f);
                                }
                            }
                        }
                    }
                    _ => {}
                }
            }
            Expr::Index(ix) => {
                let sp = ix.bracket_token.span.open();
                self.site("index", sp);
                // N14: in diverge mode an out-of-range *read* diverges (places are left alone)
                if self.diverge && self.lvalue_depth == 0 && !matches!(&*ix.index, Expr::Range(_)) {
                    let base = &ix.expr;
                    let idx = &ix.index;
                    let ne: Expr = parse_quote!((*(#base).hq_index(#idx)));
                    *e = ne;
                    self.log("N14-index-read-diverge", sp);
                }
            }
            Expr::Closure(c) => {
                // N7: closure parameter patterns `|&x|` and `|_|`
                let mut prelude: Vec<Stmt> = vec![];
                let mut changed = false;
                let mut new_inputs = Punctuated::<Pat, Token![,]>::new();
                for p in c.inputs.iter() {
                    let (p_inner, ty) = match p {
                        Pat::Type(pt) => ((*pt.pat).clone(), Some((*pt.ty).clone())),
                        other => (other.clone(), None),
                    };
                    let np: Pat = match &p_inner {
                        Pat::Wild(_) => {
                            changed = true;
                            let id = self.fresh("u");
                            parse_quote!(#id)
                        }
                        Pat::Reference(r) if r.mutability.is_none() => {
                            if let Pat::Ident(pi) = &*r.pat {
                                changed = true;
                                let id = pi.ident.clone();
                                prelude.push(parse_quote!(let #id = *#id;));
                                parse_quote!(#id)
                            } else {
                                p_inner.clone()
                            }
                        }
                        _ => p_inner.clone(),
                    };
                    let np: Pat = match ty {
                        Some(t) => Pat::Type(PatType { attrs: vec![], pat: Box::new(np), colon_token: Default::default(), ty: Box::new(t.clone()) }),
                        None => np,
                    };
                    new_inputs.push(np);
                }
                if changed {
                    let sp = c.or1_token.span;
                    c.inputs = new_inputs;
                    if !prelude.is_empty() {
                        let body = &c.body;
                        let nb: Expr = parse_quote!({ #(#prelude)* #body });
                        *c.body = nb;
                    }
                    self.log("N7-closure-param-pattern", sp);
                }
            }
            Expr::Match(m) => {
                // N5: or-pattern arms binding by `ref mut` => one arm per alternative
                let mut new_arms = vec![];
                let mut changed = false;
                for arm in m.arms.iter() {
                    if needs_or_distribution(&arm.pat) {
                        for alt in expand_pat(&arm.pat) {
                            let mut a = arm.clone();
                            a.pat = alt;
                            new_arms.push(a);
                        }
                        changed = true;
                        continue;
                    }
                    if let Pat::Or(po) = &arm.pat {
                        let scrut_mut = matches!(&*m.expr, Expr::Reference(r) if r.mutability.is_some());
                        // (also: an or-pattern with a guard, `A | B if g => X` = `A if g => X, B if g => X`: unsupported by Verus as one arm)
                        if pat_binds_by_mut_ref(&arm.pat) || (scrut_mut && has_binding(&arm.pat)) || arm.guard.is_some() {
                            for case in po.cases.iter() {
                                let mut a = arm.clone();
                                a.pat = case.clone();
                                new_arms.push(a);
                            }
                            changed = true;
                            continue;
                        }
                    }
                    new_arms.push(arm.clone());
                }
                if changed {
                    let sp = m.match_token.span;
                    m.arms = new_arms;
                    self.log("N5-split-or-pattern", sp);
                }
                // N6: `P if g => B, _ => W` (guard arm directly before the final wildcard arm)
                //     => `P => if g { B } else { W }, _ => W`
                let n = m.arms.len();
                if n >= 2 {
                    let last_is_wild = matches!(&m.arms[n - 1].pat, Pat::Wild(_)) && m.arms[n - 1].guard.is_none();
                    if last_is_wild && m.arms[n - 2].guard.is_some() {
                        let w = m.arms[n - 1].body.clone();
                        let arm = &mut m.arms[n - 2];
                        let (_, g) = arm.guard.take().unwrap();
                        let b = arm.body.clone();
                        let nb: Expr = parse_quote!(if #g { #b } else { #w });
                        *arm.body = nb;
                        let sp = m.match_token.span;
                        self.log("N6-guard-into-body", sp);
                    }
                }
            }
            _ => {}
        }
    }
}

/// N12: `SmallVec<[T; N]>` / `ThinVec<T>` -> `Vec<T>`
pub fn map_vec_type(t: &Type) -> Option<Type> {
    if let Type::Path(tp) = t {
        let last = tp.path.segments.last()?;
        let name = last.ident.to_string();
        // N12b: the crate's `Result<T>` alias -> std Result with the crate's error type (named CrateError in the unit)
        if name == "Result" && tp.path.segments.len() == 2 && tp.path.segments[0].ident == "crate" {
            if let PathArguments::AngleBracketed(ab) = &last.arguments {
                if ab.args.len() == 1 {
                    let a = &ab.args[0];
                    return Some(parse_quote!(std::result::Result<#a, CrateError>));
                }
            }
        }
        if name == "SmallVec" {
            if let PathArguments::AngleBracketed(ab) = &last.arguments {
                if let Some(GenericArgument::Type(Type::Array(arr))) = ab.args.first() {
                    let el = &arr.elem;
                    return Some(parse_quote!(Vec<#el>));
                }
            }
        } else if name == "ThinVec" {
            if let PathArguments::AngleBracketed(ab) = &last.arguments {
                if let Some(GenericArgument::Type(el)) = ab.args.first() {
                    return Some(parse_quote!(Vec<#el>));
                }
            }
        }
    }
    None
}

fn block_has_continue(b: &Block) -> bool {
    struct V(bool);
    impl<'ast> syn::visit::Visit<'ast> for V {
        fn visit_expr_continue(&mut self, _: &'ast ExprContinue) {
            self.0 = true;
        }
        fn visit_expr_for_loop(&mut self, _: &'ast ExprForLoop) {}
        fn visit_expr_while(&mut self, _: &'ast ExprWhile) {}
        fn visit_expr_loop(&mut self, _: &'ast ExprLoop) {}
        fn visit_expr_closure(&mut self, _: &'ast ExprClosure) {}
    }
    let mut v = V(false);
    syn::visit::Visit::visit_block(&mut v, b);
    v.0
}

fn expr_has_continue(e: &Expr) -> bool {
    struct V(bool);
    impl<'ast> syn::visit::Visit<'ast> for V {
        fn visit_expr_continue(&mut self, _: &'ast ExprContinue) {
            self.0 = true;
        }
        fn visit_expr_for_loop(&mut self, _: &'ast ExprForLoop) {}
        fn visit_expr_while(&mut self, _: &'ast ExprWhile) {}
        fn visit_expr_loop(&mut self, _: &'ast ExprLoop) {}
        fn visit_expr_closure(&mut self, _: &'ast ExprClosure) {}
    }
    let mut v = V(false);
    syn::visit::Visit::visit_expr(&mut v, e);
    v.0
}

/// every `continue` of the chain is the last statement of one of its branches (and at least one branch has one)
fn chain_tail_continue_only(i: &ExprIf) -> bool {
    fn branch_ok(b: &Block, found: &mut bool) -> bool {
        let mut body = b.clone();
        if matches!(body.stmts.last(), Some(Stmt::Expr(Expr::Continue(c), _)) if c.label.is_none()) {
            body.stmts.pop();
            *found = true;
        }
        !block_has_continue(&body)
    }
    let mut found = false;
    let mut cur = i;
    loop {
        if !branch_ok(&cur.then_branch, &mut found) {
            return false;
        }
        match &cur.else_branch {
            None => break,
            Some((_, e)) => match &**e {
                Expr::If(n) => cur = n,
                Expr::Block(b) => {
                    if !branch_ok(&b.block, &mut found) {
                        return false;
                    }
                    break;
                }
                _ => return false,
            },
        }
    }
    found
}

fn push_rest_into_chain(i: &mut ExprIf, rest: &[Stmt]) {
    fn fix(b: &mut Block, rest: &[Stmt]) {
        if matches!(b.stmts.last(), Some(Stmt::Expr(Expr::Continue(_), _))) {
            b.stmts.pop();
        } else {
            // a tail expression of unit type becomes a statement before REST is appended
            if let Some(Stmt::Expr(e, None)) = b.stmts.pop() {
                b.stmts.push(Stmt::Expr(e, Some(Default::default())));
            } else if let Some(st) = b.stmts.pop() {
                b.stmts.push(st);
            }
            // (pop/push above only normalises a trailing expression)
            b.stmts.extend(rest.iter().cloned());
        }
    }
    fix(&mut i.then_branch, rest);
    match &mut i.else_branch {
        None => {
            let els: Block = Block { brace_token: Default::default(), stmts: rest.to_vec() };
            i.else_branch = Some((Default::default(), Box::new(Expr::Block(ExprBlock { attrs: vec![], label: None, block: els }))));
        }
        Some((_, e)) => match &mut **e {
            Expr::If(n) => push_rest_into_chain(n, rest),
            Expr::Block(b) => fix(&mut b.block, rest),
            _ => {}
        },
    }
}

fn eliminate_continue(stmts: Vec<Stmt>) -> std::result::Result<Vec<Stmt>, String> {
    let mut out = vec![];
    let mut iter = stmts.into_iter();
    while let Some(st) = iter.next() {
        let is_if_continue = match &st {
            Stmt::Expr(Expr::If(i), _) => {
                i.else_branch.is_none()
                    && matches!(i.then_branch.stmts.last(), Some(Stmt::Expr(Expr::Continue(c), _)) if c.label.is_none())
            }
            _ => false,
        };
        // `let PAT = E else { D; continue; }; REST`  =>  `if let PAT = E { REST } else { D }`
        let is_let_else_continue = match &st {
            Stmt::Local(l) => match &l.init {
                Some(LocalInit { diverge: Some((_, d)), .. }) => match &**d {
                    Expr::Block(b) => matches!(b.block.stmts.last(), Some(Stmt::Expr(Expr::Continue(c), _)) if c.label.is_none()),
                    _ => false,
                },
                _ => false,
            },
            _ => false,
        };
        if is_let_else_continue {
            if let Stmt::Local(l) = st {
                let init = l.init.unwrap();
                let mut d = match *init.diverge.unwrap().1 {
                    Expr::Block(b) => b.block,
                    _ => unreachable!(),
                };
                d.stmts.pop();
                if block_has_continue(&d) {
                    return Err("unsupported `continue` shape (nested)".into());
                }
                let rest: Vec<Stmt> = iter.collect();
                let rest = eliminate_continue(rest)?;
                let pat = l.pat;
                let e = init.expr;
                let ne: Expr = parse_quote!(if let #pat = #e { #(#rest)* } else #d);
                out.push(Stmt::Expr(ne, None));
                return Ok(out);
            }
            unreachable!();
        }
        // a trailing `if`/`if let` (the last statement of the loop body): `continue` inside it skips the rest of ITS block only,
        // so the elimination recurses into its branches
        let is_last = iter.len() == 0;
        if is_last {
            if let Stmt::Expr(Expr::If(i), semi) = &st {
                if expr_has_continue(&Expr::If(i.clone())) && !chain_tail_continue_only(i) {
                    let mut i2 = i.clone();
                    fn rec(i: &mut ExprIf) -> std::result::Result<(), String> {
                        let stmts = std::mem::take(&mut i.then_branch.stmts);
                        i.then_branch.stmts = eliminate_continue(stmts)?;
                        if let Some((_, e)) = &mut i.else_branch {
                            match &mut **e {
                                Expr::If(n) => rec(n)?,
                                Expr::Block(b) => {
                                    let st = std::mem::take(&mut b.block.stmts);
                                    b.block.stmts = eliminate_continue(st)?;
                                }
                                _ => {}
                            }
                        }
                        Ok(())
                    }
                    rec(&mut i2)?;
                    out.push(Stmt::Expr(Expr::If(i2), *semi));
                    return Ok(out);
                }
            }
        }
        // `match S { P => continue, Q => E, .. }  REST`  =>  `match S { P => {}, Q => { E; REST }, .. }`
        let is_match_continue = match &st {
            Stmt::Expr(Expr::Match(m), _) => {
                m.arms.iter().any(|a| matches!(&*a.body, Expr::Continue(c) if c.label.is_none()))
                    && m.arms.iter().all(|a| matches!(&*a.body, Expr::Continue(c) if c.label.is_none()) || !expr_has_continue(&a.body))
            }
            _ => false,
        };
        if is_match_continue {
            if let Stmt::Expr(Expr::Match(mut m), _) = st {
                let rest: Vec<Stmt> = iter.collect();
                let rest = eliminate_continue(rest)?;
                for a in m.arms.iter_mut() {
                    if matches!(&*a.body, Expr::Continue(_)) {
                        a.body = Box::new(parse_quote!({}));
                    } else {
                        let b = a.body.clone();
                        a.body = Box::new(parse_quote!({ #b; #(#rest)* }));
                    }
                    a.comma = Some(Default::default());
                }
                out.push(Stmt::Expr(Expr::Match(m), None));
                return Ok(out);
            }
            unreachable!();
        }
        // general if / else-if / else chain in which some branches END with `continue`:
        //   `if c1 {B1} else if c2 {B2; continue;} else {B3}  REST`  =>  `if c1 {B1; REST} else if c2 {B2} else {B3; REST}`
        let is_chain_continue = !is_if_continue
            && match &st {
                Stmt::Expr(Expr::If(i), _) => i.else_branch.is_some() && chain_tail_continue_only(i),
                _ => false,
            };
        if is_chain_continue {
            if let Stmt::Expr(Expr::If(mut i), _) = st {
                let rest: Vec<Stmt> = iter.collect();
                let rest = eliminate_continue(rest)?;
                push_rest_into_chain(&mut i, &rest);
                out.push(Stmt::Expr(Expr::If(i), None));
                return Ok(out);
            }
            unreachable!();
        }
        if is_if_continue {
            if let Stmt::Expr(Expr::If(mut i), _) = st {
                i.then_branch.stmts.pop();
                if block_has_continue(&i.then_branch) {
                    return Err("unsupported `continue` shape (nested)".into());
                }
                let rest: Vec<Stmt> = iter.collect();
                let rest = eliminate_continue(rest)?;
                let els: Block = Block { brace_token: Default::default(), stmts: rest };
                i.else_branch = Some((Default::default(), Box::new(Expr::Block(ExprBlock { attrs: vec![], label: None, block: els }))));
                out.push(Stmt::Expr(Expr::If(i), None));
                return Ok(out);
            }
        } else {
            if let Stmt::Expr(e, _) = &st {
                struct V(bool);
                impl<'ast> syn::visit::Visit<'ast> for V {
                    fn visit_expr_continue(&mut self, _: &'ast ExprContinue) {
                        self.0 = true;
                    }
                    fn visit_expr_for_loop(&mut self, _: &'ast ExprForLoop) {}
                    fn visit_expr_while(&mut self, _: &'ast ExprWhile) {}
                    fn visit_expr_loop(&mut self, _: &'ast ExprLoop) {}
                    fn visit_expr_closure(&mut self, _: &'ast ExprClosure) {}
                }
                let mut v = V(false);
                syn::visit::Visit::visit_expr(&mut v, e);
                if v.0 {
                    return Err("unsupported `continue` shape".into());
                }
            }
            out.push(st);
        }
    }
    Ok(out)
}

fn is_entry_or_default(e: &Expr) -> bool {
    if let Expr::MethodCall(od) = e {
        if od.method == "or_default" && od.args.is_empty() {
            if let Expr::MethodCall(en) = &*od.receiver {
                return en.method == "entry" && en.args.len() == 1;
            }
        }
    }
    false
}

fn is_assign_op(op: &BinOp) -> bool {
    matches!(
        op,
        BinOp::AddAssign(_) | BinOp::SubAssign(_) | BinOp::MulAssign(_) | BinOp::DivAssign(_) | BinOp::RemAssign(_)
            | BinOp::BitXorAssign(_) | BinOp::BitAndAssign(_) | BinOp::BitOrAssign(_) | BinOp::ShlAssign(_) | BinOp::ShrAssign(_)
    )
}

fn is_copied_iter(e: &Expr) -> bool {
    if let Expr::MethodCall(mc) = e {
        let n = mc.method.to_string();
        return (n == "copied" || n == "cloned") && mc.args.is_empty();
    }
    false
}

fn closure_only_panics(e: &Expr) -> bool {
    fn is_panic_expr(e: &Expr) -> bool {
        match e {
            Expr::Macro(m) => {
                let n = m.mac.path.segments.last().map(|s| s.ident.to_string()).unwrap_or_default();
                n == "panic" || n == "unreachable" || n == "__hq_unreachable"
            }
            Expr::Call(c) => matches!(&*c.func, Expr::Path(p) if p.path.is_ident("hq_panic")),
            Expr::Block(b) => {
                b.block.stmts.len() == 1
                    && match &b.block.stmts[0] {
                        Stmt::Expr(e, _) => is_panic_expr(e),
                        Stmt::Macro(m) => {
                            let n = m.mac.path.segments.last().map(|s| s.ident.to_string()).unwrap_or_default();
                            n == "panic" || n == "unreachable" || n == "__hq_unreachable"
                        }
                        _ => false,
                    }
            }
            _ => false,
        }
    }
    if let Expr::Closure(c) = e {
        return c.inputs.is_empty() && is_panic_expr(&c.body);
    }
    false
}

fn simplify_parens(e: Expr) -> Expr {
    if let Expr::MethodCall(mut mc) = e {
        if let Expr::Paren(p) = &*mc.receiver {
            match &*p.expr {
                Expr::Path(_) | Expr::Field(_) | Expr::MethodCall(_) | Expr::Call(_) => {
                    mc.receiver = p.expr.clone();
                }
                _ => {}
            }
        }
        Expr::MethodCall(mc)
    } else {
        e
    }
}

fn pat_is_some(p: &Pat) -> bool {
    match p {
        Pat::TupleStruct(ts) => ts.path.is_ident("Some"),
        _ => false,
    }
}

fn option_map_to_match(e: &Expr) -> Option<Expr> {
    if let Expr::MethodCall(mc) = e {
        if (mc.method == "map" || mc.method == "and_then") && mc.args.len() == 1 {
            if let Expr::Closure(c) = &mc.args[0] {
                if c.inputs.len() == 1 && !body_has_return(&c.body) {
                    let pat = match c.inputs[0].clone() {
                        Pat::Type(pt) => *pt.pat,
                        p => p,
                    };
                    if matches!(pat, Pat::Ident(_)) {
                        let recv = &mc.receiver;
                        let body = &c.body;
                        let ne: Expr = if mc.method == "map" {
                            parse_quote!(match #recv { Some(#pat) => Some(#body), None => None })
                        } else {
                            parse_quote!(match #recv { Some(#pat) => #body, None => None })
                        };
                        return Some(ne);
                    }
                }
            }
        }
    }
    None
}

fn body_has_return(e: &Expr) -> bool {
    struct V(bool);
    impl<'ast> syn::visit::Visit<'ast> for V {
        fn visit_expr_return(&mut self, _: &'ast ExprReturn) {
            self.0 = true;
        }
        fn visit_expr_closure(&mut self, _: &'ast ExprClosure) {}
    }
    let mut v = V(false);
    syn::visit::Visit::visit_expr(&mut v, e);
    v.0
}

/// N11 (nested): the nth statement, at any depth, whose token text starts with `anchor`; together with the `let`
/// statements that precede it in the enclosing blocks (outermost first, source order) for N11b.
pub fn find_stmt(b: &Block, anchor: &str, nth: usize) -> Option<(Stmt, Vec<Local>)> {
    find_stmts(b, anchor, nth, None).map(|(mut v, c)| (v.remove(0), c))
}

/// like find_stmt, but with `until`: the found statement and its following siblings (same block) up to and including
/// the first one whose token text starts with `until`
pub fn find_stmts(b: &Block, anchor: &str, nth: usize, until: Option<&str>) -> Option<(Vec<Stmt>, Vec<Local>)> {
    let norm = |s: &str| s.chars().filter(|c| !c.is_whitespace()).collect::<String>();
    let a = norm(anchor);
    struct V {
        a: String,
        u: Option<String>,
        left: usize,
        found: Option<Vec<Stmt>>,
        stack: Vec<Vec<Local>>,
        ctx: Vec<Local>,
    }
    impl<'ast> syn::visit::Visit<'ast> for V {
        fn visit_block(&mut self, b: &'ast Block) {
            self.stack.push(vec![]);
            for (idx, st) in b.stmts.iter().enumerate() {
                if self.found.is_some() {
                    break;
                }
                let t: String = st.to_token_stream().to_string().chars().filter(|c| !c.is_whitespace()).collect();
                if t.starts_with(&self.a) {
                    self.left -= 1;
                    if self.left == 0 {
                        let mut out = vec![st.clone()];
                        if let Some(u) = &self.u {
                            let mut closed = false;
                            for st2 in b.stmts.iter().skip(idx + 1) {
                                out.push(st2.clone());
                                let t2: String = st2.to_token_stream().to_string().chars().filter(|c| !c.is_whitespace()).collect();
                                if t2.starts_with(u.as_str()) {
                                    closed = true;
                                    break;
                                }
                            }
                            // `slice_until=$` : up to the end of the enclosing block
                            if u == "$" {
                                closed = true;
                            }
                            if !closed {
                                // until-anchor not among the following siblings: report as not found
                                self.left = usize::MAX;
                                return;
                            }
                        }
                        self.found = Some(out);
                        self.ctx = self.stack.iter().flatten().cloned().collect();
                        break;
                    }
                }
                syn::visit::visit_stmt(self, st);
                if self.found.is_none() {
                    if let Stmt::Local(l) = st {
                        self.stack.last_mut().unwrap().push(l.clone());
                    }
                }
            }
            self.stack.pop();
        }
        // the body of a match arm that is an expression (not a block) is a statement of its own: `PAT => match x { .. },`
        fn visit_arm(&mut self, arm: &'ast syn::Arm) {
            if self.found.is_some() {
                return;
            }
            if !matches!(&*arm.body, Expr::Block(_)) && self.u.is_none() {
                let t: String = arm.body.to_token_stream().to_string().chars().filter(|c| !c.is_whitespace()).collect();
                if t.starts_with(&self.a) {
                    self.left -= 1;
                    if self.left == 0 {
                        self.found = Some(vec![Stmt::Expr((*arm.body).clone(), None)]);
                        self.ctx = self.stack.iter().flatten().cloned().collect();
                        return;
                    }
                }
            }
            syn::visit::visit_arm(self, arm);
        }
    }
    let mut v = V { a, u: until.map(norm), left: nth.max(1), found: None, stack: vec![], ctx: vec![] };
    syn::visit::Visit::visit_block(&mut v, b);
    let ctx = std::mem::take(&mut v.ctx);
    v.found.map(|f| (f, ctx))
}

#[allow(dead_code)]
fn find_stmt_old(b: &Block, anchor: &str, nth: usize) -> Option<(Stmt, Vec<Local>)> {
    let norm = |s: &str| s.chars().filter(|c| !c.is_whitespace()).collect::<String>();
    let a = norm(anchor);
    struct V {
        a: String,
        left: usize,
        found: Option<Stmt>,
        stack: Vec<Vec<Local>>,
        ctx: Vec<Local>,
    }
    impl<'ast> syn::visit::Visit<'ast> for V {
        fn visit_block(&mut self, b: &'ast Block) {
            self.stack.push(vec![]);
            for st in &b.stmts {
                if self.found.is_some() {
                    break;
                }
                self.visit_stmt(st);
                if self.found.is_none() {
                    if let Stmt::Local(l) = st {
                        self.stack.last_mut().unwrap().push(l.clone());
                    }
                }
            }
            self.stack.pop();
        }
        fn visit_stmt(&mut self, st: &'ast Stmt) {
            if self.found.is_some() {
                return;
            }
            let t: String = st.to_token_stream().to_string().chars().filter(|c| !c.is_whitespace()).collect();
            if t.starts_with(&self.a) {
                self.left -= 1;
                if self.left == 0 {
                    self.found = Some(st.clone());
                    self.ctx = self.stack.iter().flatten().cloned().collect();
                    return;
                }
            }
            syn::visit::visit_stmt(self, st);
        }
    }
    let mut v = V { a, left: nth.max(1), found: None, stack: vec![], ctx: vec![] };
    syn::visit::Visit::visit_block(&mut v, b);
    let ctx = std::mem::take(&mut v.ctx);
    v.found.map(|f| (f, ctx))
}

/// identifiers bound by a pattern
pub fn pat_idents(p: &Pat, out: &mut Vec<String>) {
    struct V<'a>(&'a mut Vec<String>);
    impl<'ast, 'a> syn::visit::Visit<'ast> for V<'a> {
        fn visit_pat_ident(&mut self, p: &'ast PatIdent) {
            self.0.push(p.ident.to_string());
            if let Some((_, sub)) = &p.subpat {
                self.visit_pat(sub);
            }
        }
    }
    syn::visit::Visit::visit_pat(&mut V(out), p);
}

/// (single-segment lower-case path expressions used, identifiers bound by any pattern inside)
fn used_and_bound(stmts: &[Stmt]) -> (Vec<String>, Vec<String>) {
    struct V {
        used: Vec<String>,
        bound: Vec<String>,
    }
    impl<'ast> syn::visit::Visit<'ast> for V {
        fn visit_expr_path(&mut self, p: &'ast ExprPath) {
            if p.qself.is_none() && p.path.segments.len() == 1 {
                let n = p.path.segments[0].ident.to_string();
                if n.chars().next().map(|c| c.is_lowercase() || c == '_').unwrap_or(false) {
                    self.used.push(n);
                }
            }
        }
        fn visit_pat_ident(&mut self, p: &'ast PatIdent) {
            self.bound.push(p.ident.to_string());
            if let Some((_, sub)) = &p.subpat {
                self.visit_pat(sub);
            }
        }
        fn visit_macro(&mut self, m: &'ast Macro) {
            for t in m.tokens.clone() {
                if let proc_macro2::TokenTree::Ident(i) = t {
                    let n = i.to_string();
                    if n.chars().next().map(|c| c.is_lowercase()).unwrap_or(false) {
                        self.used.push(n);
                    }
                }
            }
        }
    }
    let mut v = V { used: vec![], bound: vec![] };
    for s in stmts {
        syn::visit::Visit::visit_stmt(&mut v, s);
    }
    (v.used, v.bound)
}

/// N11b: the `let` statements of the enclosing blocks that define variables the slice uses but that are neither
/// bound inside the slice nor parameters of the slice signature are carried into the slice (transitively, source order).
pub fn needed_lets(slice: &[Stmt], ctx: &[Local], params: &[String]) -> Vec<Local> {
    let (used, bound) = used_and_bound(slice);
    let mut needed: Vec<String> = used.into_iter().filter(|u| !bound.contains(u) && !params.contains(u)).collect();
    let mut take = vec![false; ctx.len()];
    // one backward pass: the closest preceding definition of a needed name is the one in effect (an earlier `let` of the same name is
    // shadowed and not carried); what the carried `let` itself uses becomes needed in front of it
    for (i, l) in ctx.iter().enumerate().rev() {
        let mut ids = vec![];
        pat_idents(&l.pat, &mut ids);
        if ids.iter().any(|x| needed.contains(x) && !params.contains(x)) {
            take[i] = true;
            needed.retain(|x| !ids.contains(x));
            let (u2, _) = used_and_bound(&[Stmt::Local(l.clone())]);
            for u in u2 {
                if !needed.contains(&u) && !params.contains(&u) {
                    needed.push(u);
                }
            }
        }
    }
    ctx.iter().zip(take).filter(|(_, t)| *t).map(|(l, _)| l.clone()).collect()
}

/// N11: keep a contiguous statement range of the top-level block, named by two anchor strings
/// (substring match on the token text of a statement, whitespace-insensitive).
/// N8j helper: `ITER.filter_map(|p| B)` (the receiver of `.collect()`) as a loop that pushes / inserts the `Some` results
fn filter_map_collect_loop(recv: &Expr, as_set: bool, counter: &mut usize) -> Option<Expr> {
    if let Expr::MethodCall(inner) = recv {
        if inner.method == "filter_map" && inner.args.len() == 1 {
            if let Expr::Closure(c) = &inner.args[0] {
                if c.inputs.len() == 1 && !body_has_return(&c.body) {
                    let it = &inner.receiver;
                    let pat = match c.inputs[0].clone() {
                        Pat::Type(pt) => *pt.pat,
                        p => p,
                    };
                    let body = &c.body;
                    *counter += 1;
                    let acc = Ident::new(&format!("__hq_acc{}", counter), Span::call_site());
                    *counter += 1;
                    let v = Ident::new(&format!("__hq_v{}", counter), Span::call_site());
                    let ne: Expr = if as_set {
                        parse_quote!({
                            let mut #acc = Set::new();
                            for #pat in #it { match #body { Some(#v) => { #acc.insert(#v); } None => {} } }
                            #acc
                        })
                    } else {
                        parse_quote!({
                            let mut #acc = Vec::new();
                            for #pat in #it { match #body { Some(#v) => { #acc.push(#v); } None => {} } }
                            #acc
                        })
                    };
                    return Some(ne);
                }
            }
        }
    }
    None
}

/// N18b: see the retain rule
fn elim_closure_returns(body: &Expr) -> Option<Expr> {
    fn elim(stmts: &[Stmt]) -> Option<Vec<Stmt>> {
        for (i, st) in stmts.iter().enumerate() {
            if let Stmt::Expr(Expr::If(ifx), _) = st {
                if ifx.else_branch.is_none() {
                    if let Some(Stmt::Expr(Expr::Return(r), Some(_))) = ifx.then_branch.stmts.last() {
                        let n = ifx.then_branch.stmts.len();
                        let prefix = &ifx.then_branch.stmts[..n - 1];
                        let prefix_clean = prefix.iter().all(|s| !body_has_return(&Expr::Block(ExprBlock { attrs: vec![], label: None, block: Block { brace_token: Default::default(), stmts: vec![s.clone()] } })));
                        if let (Some(v), true) = (&r.expr, prefix_clean) {
                            let rest = elim(&stmts[i + 1..])?;
                            if !matches!(rest.last(), Some(Stmt::Expr(_, None))) {
                                return None;
                            }
                            let cond = &ifx.cond;
                            let new_if: Expr = parse_quote!(if #cond { #(#prefix)* #v } else { #(#rest)* });
                            let mut out: Vec<Stmt> = stmts[..i].to_vec();
                            out.push(Stmt::Expr(new_if, None));
                            return Some(out);
                        }
                    }
                }
            }
            let as_block = Expr::Block(ExprBlock { attrs: vec![], label: None, block: Block { brace_token: Default::default(), stmts: vec![st.clone()] } });
            if body_has_return(&as_block) {
                return None;
            }
        }
        Some(stmts.to_vec())
    }
    if let Expr::Block(b) = body {
        if b.label.is_none() {
            let ns = elim(&b.block.stmts)?;
            let nb: Expr = parse_quote!({ #(#ns)* });
            return Some(nb);
        }
    }
    None
}

pub fn slice_block(b: &Block, sl: &Value) -> std::result::Result<Block, String> {
    let norm = |s: &str| s.chars().filter(|c| !c.is_whitespace()).collect::<String>();
    let from = sl["from"].as_str().map(norm);
    let to = sl["to"].as_str().map(norm);
    let texts: Vec<String> = b.stmts.iter().map(|s| norm(&s.to_token_stream().to_string())).collect();
    let start = match &from {
        Some(f) => texts.iter().position(|t| t.contains(f.as_str())).ok_or(format!("from-anchor not found: {}", f))?,
        None => 0,
    };
    let end = match &to {
        Some(f) => {
            let p = texts.iter().skip(start).position(|t| t.contains(f.as_str())).ok_or(format!("to-anchor not found: {}", f))?;
            start + p + if sl["to_inclusive"].as_bool().unwrap_or(true) { 1 } else { 0 }
        }
        None => b.stmts.len(),
    };
    let mut nb = b.clone();
    nb.stmts = b.stmts[start..end].to_vec();
    Ok(nb)
}

#[allow(dead_code)]
fn _unused() {
    let _ = quote!();
}

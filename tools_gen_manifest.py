#!/usr/bin/env python3
"""Regenerates MANIFEST.json from props.json (+ not_applicable.json). Run by hand after editing props.json."""
import json, os
V = os.path.dirname(os.path.abspath(__file__))
cfg = json.load(open(os.path.join(V, "props.json")))
na = json.load(open(os.path.join(V, "not_applicable.json")))
checks = []
for pid in sorted(cfg["properties"]):
    pc = cfg["properties"][pid]
    checks.append({
        "property_id": pid,
        "quick_cmd": f"./check {pid} --tier quick",
        "thorough_cmd": f"./check {pid} --tier thorough",
        "evidence_file": f"/verif/evidence/{pid}.json",
        "replay_cmd_template": f"./check {pid} --replay {{path}}",
        "engine": "hqv",
        "level_claimed": {"category": "proof", "text": pc["level_text"], "design_ref": pc.get("design_ref", "DESIGN.md §4 " + pid)},
        "level_note": pc["level_note"],
        "technique": pc.get("technique", "contract-based deductive verification (Verus) of functions extracted mechanically from /repo on every run"),
    })
m = {
    "version": 1,
    "setup_cmd": "cd /verif/extractor && CARGO_NET_OFFLINE=true cargo build --release --offline",
    "hooks": cfg["hooks"],
    "engines": [
        {"name": "hqv", "path": "/verif/check", "serves_properties": sorted(cfg["properties"]),
         "kind_free_text": "syn-based extractor (extractor/) + contract splicer (lib/hqv.py) + Verus 0.2026.09.13 (z3) on the real function bodies; Kani 0.68 function contracts / loop-free harnesses for scalar kernels"}
    ],
    "checks": checks,
    "not_applicable": na,
    "notes": cfg.get("notes", ""),
}
json.dump(m, open(os.path.join(V, "MANIFEST.json"), "w"), indent=1)
print("MANIFEST.json written:", [c["property_id"] for c in checks])

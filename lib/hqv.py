#!/usr/bin/env python3
"""hqv — driver for contract-based deductive verification of the real HyperQueue code.

Pipeline per unit (DESIGN.md §3.1): extract (hqx, syn) -> normalise -> splice contracts ->
assemble one Verus file -> verus -> map diagnostics to functions/clauses -> verdict.
"""
import hashlib
import json
import os
import re
import shutil
import subprocess
import sys
import tempfile
import time

VERIF = os.path.dirname(os.path.dirname(os.path.abspath(__file__)))
REPO = os.environ.get("HQ_REPO", "/repo")
HQX = os.path.join(VERIF, "extractor", "target", "release", "hqx")

SEMANTIC_MSGS = (
    "postcondition not satisfied",
    "precondition not satisfied",
    "assertion failed",
    "invariant not satisfied",
    "possible arithmetic underflow/overflow",
    "possible division by zero",
    "loop invariant",
    "decreases not satisfied",
    "recommendation not met",
    "unreachable",
    "possible bit shift",
    "cannot show invariant",
    "could not prove termination",
)
RESOURCE_MSGS = ("rlimit exceeded", "resource limit", "timed out", "timeout", "while loop: resource")


class UnitError(Exception):
    """exit-2 condition: lost anchor / unsupported construct / bad contract file"""


def scratch_dir():
    base = os.environ.get("VERIF_SCRATCH")
    if base:
        os.makedirs(base, exist_ok=True)
        return tempfile.mkdtemp(prefix="hqv.", dir=base)
    return tempfile.mkdtemp(prefix="hqverif.", dir="/var/tmp")


# --------------------------------------------------------------------------------------------
# contract file parsing


def parse_kv(tokens):
    kv = {}
    rest = []
    for t in tokens:
        if "=" in t and not t.startswith('"'):
            k, v = t.split("=", 1)
            kv[k] = v
        else:
            rest.append(t)
    return kv, rest


def parse_unit(path, _included=None):
    """returns dict(meta, segments); segment = ('text', str) | ('extract', dict)"""
    if _included is None:
        _included = set()
    meta = {"includes": [], "props": [], "file": None, "panics": "obligation", "name": os.path.basename(path)[:-4]}
    segs = []
    cur_text = []
    cur = None  # current extract fn
    cur_part = None
    lines = open(path).read().split("\n")

    def flush_text():
        if cur_text:
            segs.append(("text", "\n".join(cur_text)))
            cur_text.clear()

    for ln_no, line in enumerate(lines, 1):
        s = line.strip()
        if s.startswith("//@"):
            body = s[3:].strip()
            toks = body.split()
            if not toks:
                continue
            d = toks[0]
            if d == "unit:":
                meta["name"] = toks[1]
            elif d == "props:":
                meta["props"] = toks[1:]
            elif d == "include:":
                flush_text()
                for inc in toks[1:]:
                    if inc in _included:
                        continue
                    _included.add(inc)
                    sub = parse_unit(os.path.join(VERIF, inc), _included)
                    segs.append(("text", f"// ---- include {inc}"))
                    # functions of an included unit keep that unit's property list (not the includer's)
                    for (k_, seg_) in sub["segments"]:
                        if k_ == "extract" and seg_["kind"] == "fn" and "props" not in seg_["opts"] and sub["meta"]["props"]:
                            seg_["opts"]["props"] = ",".join(sub["meta"]["props"])
                    segs.extend(sub["segments"])
                    meta.setdefault("expects", []).extend(sub["meta"].get("expects", []))
                    for b in sub["meta"].get("pc_twins", []):
                        if b not in meta.setdefault("pc_twins", []):
                            meta["pc_twins"].append(b)
                    for b in sub["meta"].get("broadcasts", []):
                        if b not in meta.setdefault("broadcasts", []):
                            meta["broadcasts"].append(b)
                    meta["includes"].append(inc)
                    meta["includes"] += [i for i in sub["meta"]["includes"] if i not in meta["includes"]]
            elif d == "file:":
                meta["file"] = toks[1]
            elif d == "panics:":
                meta["panics"] = toks[1]
            elif d == "opt:":
                kv, _ = parse_kv(toks[1:])
                meta.setdefault("opts", {}).update(kv)
            elif d == "pc-twins:":
                meta.setdefault("pc_twins", []).extend(toks[1:])
            elif d == "broadcast:":
                meta.setdefault("broadcasts", []).extend(toks[1:])
            elif d == "expect":
                m = re.match(r'expect\s+file=(\S+)\s+text="(.*)"\s*$', body)
                if not m:
                    raise UnitError(f"{path}:{ln_no}: bad expect directive")
                meta.setdefault("expects", []).append((m.group(1), m.group(2)))
            elif d == "extract":
                if cur is not None:
                    raise UnitError(f"{path}:{ln_no}: nested extract (missing //@ end)")
                kind = toks[1]
                name = toks[2]
                kv, _ = parse_kv(toks[3:])
                ex = {
                    "kind": kind,
                    "path": name,
                    "file": kv.pop("file", meta["file"]),
                    "opts": kv,
                    "contract": [],
                    "loops": {},
                    "hints": [],
                    "decl_line": ln_no,
                }
                if kind == "fn":
                    flush_text()
                    cur = ex
                    cur_part = cur["contract"]
                else:
                    flush_text()
                    segs.append(("extract", ex))
            elif d == "loop":
                if cur is None:
                    raise UnitError(f"{path}:{ln_no}: //@ loop outside extract fn")
                kv, rest = parse_kv(toks[1:])
                ordn = int(rest[0])
                lp = {"text": [], "opts": kv}
                cur["loops"][ordn] = lp
                cur_part = lp["text"]
            elif d == "hint":
                if cur is None:
                    raise UnitError(f"{path}:{ln_no}: //@ hint outside extract fn")
                m = re.match(r'hint\s+(loopbefore|loopafter|loopstart|loopend|before|after|start|end|tail)\s*(?:"(.*)")?\s*(?:#?(\d+))?', body)
                if not m:
                    raise UnitError(f"{path}:{ln_no}: bad hint directive")
                h = {"where": m.group(1), "anchor": m.group(2), "nth": int(m.group(3) or 0), "text": []}
                cur["hints"].append(h)
                cur_part = h["text"]
            elif d == "end":
                if cur is None:
                    raise UnitError(f"{path}:{ln_no}: //@ end without extract")
                segs.append(("extract", cur))
                cur = None
                cur_part = None
            else:
                raise UnitError(f"{path}:{ln_no}: unknown directive {d}")
        else:
            if cur is not None:
                cur_part.append(line)
            else:
                cur_text.append(line)
    if cur is not None:
        raise UnitError(f"{path}: missing //@ end at EOF")
    flush_text()
    return {"meta": meta, "segments": segs, "path": path}


# --------------------------------------------------------------------------------------------
# assembling


def find_balanced(s, start, open_ch="(", close_ch=")"):
    """s[start] == open_ch; returns index of the matching close"""
    depth = 0
    i = start
    in_str = False
    while i < len(s):
        c = s[i]
        if in_str:
            if c == "\\":
                i += 1
            elif c == '"':
                in_str = False
        else:
            if c == '"':
                in_str = True
            elif c == open_ch:
                depth += 1
            elif c == close_ch:
                depth -= 1
                if depth == 0:
                    return i
        i += 1
    raise UnitError("unbalanced parentheses in generated text")


def splice_body(body, ex, item):
    # loop-relative hints first (positions are found through the still-present loop markers)
    for h in ex["hints"]:
        if h["where"] not in ("loopstart", "loopend", "loopbefore", "loopafter"):
            continue
        txt = "\n".join(h["text"])
        mk = "__hq_loop!(%d);" % h["nth"]
        pos = body.find(mk)
        if pos < 0:
            raise UnitError(f"LOST-ANCHOR {ex['path']}: hint names loop {h['nth']} which does not exist")
        if h["where"] == "loopbefore":
            lines_before = body[:pos].split("\n")
            k = len(lines_before) - 1
            while k >= 0 and not re.match(r"^\s*(?:'\w+:\s*)?(for|while|loop)\b", lines_before[k]):
                k -= 1
            if k < 0:
                raise UnitError(f"internal: loop header of loop {h['nth']} not found in {ex['path']}")
            at = len("\n".join(lines_before[:k])) + (1 if k > 0 else 0)
            body = body[:at] + txt + "\n" + body[at:]
        elif h["where"] == "loopafter":
            open_idx = body.rfind("{", 0, pos)
            close = find_balanced(body, open_idx, "{", "}")
            body = body[: close + 1] + "\n" + txt + "\n" + body[close + 1 :]
        elif h["where"] == "loopstart":
            at = pos + len(mk)
            body = body[:at] + "\n" + txt + "\n" + body[at:]
        else:
            open_idx = body.rfind("{", 0, pos)
            close = find_balanced(body, open_idx, "{", "}")
            body = body[:close] + "\n" + txt + "\n" + body[close:]
    # loops
    nloops = len(item.get("loops") or [])
    for ordn in ex["loops"]:
        if ordn >= nloops:
            raise UnitError(f"LOST-ANCHOR {ex['path']}: contract names loop {ordn} but function has {nloops} loops")
    for lp in item.get("loops") or []:
        ordn = lp["ordinal"]
        spec = ex["loops"].get(ordn)
        want_hdr = spec["opts"].get("header") if spec else None
        if want_hdr is not None:
            norm = lambda x: re.sub(r"\s+", "", x)
            if norm(want_hdr) not in norm(lp["header"]):
                raise UnitError(
                    f"LOST-ANCHOR {ex['path']}: loop {ordn} header changed: expected ~{want_hdr!r}, found {lp['header']!r}"
                )
        inv = "\n".join(spec["text"]) if spec else ""
        # iterator naming for `for` loops
        mk = f"__hq_iter!({ordn},"
        pos = body.find(mk)
        if pos >= 0:
            open_idx = pos + len("__hq_iter!")
            close = find_balanced(body, open_idx)
            inner = body[open_idx + 1 : close]
            inner = inner.split(",", 1)[1].strip()
            itname = (spec["opts"].get("iter") if spec else None)
            repl = f"{itname}: {inner}" if itname else inner
            body = body[:pos] + repl + body[close + 1 :]
        m = re.search(r"\{\s*__hq_loop!\(%d\);" % ordn, body)
        if not m:
            raise UnitError(f"internal: loop marker {ordn} not found in {ex['path']}")
        if REACH:
            close = find_balanced(body, m.start(), "{", "}")
            pe = new_probe("loop-end", f"{ex['path']} loop {ordn}")
            ps = new_probe("loop-start", f"{ex['path']} loop {ordn}")
            body = body[:close] + "\n;\nproof { assert(hq_probe(%d)); }\n" % pe + body[close:]
            body = body[: m.end()] + "\nproof { assert(hq_probe(%d)); }\n" % ps + body[m.end():]
        body = body[: m.start()] + "\n" + inv + "\n{" + body[m.end() :]
    body = body.replace("__hq_assert!(", "assert!(").replace("__hq_unreachable!()", "unreachable!()")
    # hints
    for h in ex["hints"]:
        txt = "\n".join(h["text"])
        if h["where"] in ("loopstart", "loopend", "loopbefore", "loopafter"):
            continue
        if h["where"] == "start":
            i = body.index("{")
            body = body[: i + 1] + "\n" + txt + "\n" + body[i + 1 :]
        elif h["where"] == "end":
            i = body.rindex("}")
            body = body[:i] + "\n" + txt + "\n" + body[i:]
        elif h["where"] == "tail":
            # before a one-line tail expression (the value of the function)
            lines = body.split("\n")
            k = len(lines) - 1
            while k >= 0 and lines[k].strip() in ("", "}"):
                k -= 1
            if k < 0 or lines[k].rstrip().endswith((";", "}", "{")):
                ex.setdefault("skipped_hints", []).append("tail")
                continue
            lines.insert(k, txt)
            body = "\n".join(lines)
        else:
            lines = body.split("\n")
            anchor = re.sub(r"\s+", "", h["anchor"])
            idxs = [i for i, l in enumerate(lines) if anchor in re.sub(r"\s+", "", l)]
            if len(idxs) <= h["nth"]:
                # the statement the hint supports is gone: the hint is moot (recorded; see DESIGN §3.2 hints)
                ex.setdefault("skipped_hints", []).append(h["anchor"])
                continue
            i = idxs[h["nth"]]
            if h["where"] == "before":
                lines.insert(i, txt)
            else:
                lines.insert(i + 1, txt)
            body = "\n".join(lines)
    return body


def run_extractor(requests, workdir):
    spec = {"repo": REPO, "requests": requests}
    sp = os.path.join(workdir, "spec.json")
    with open(sp, "w") as f:
        json.dump(spec, f)
    if not os.path.exists(HQX):
        raise UnitError(f"extractor binary missing: {HQX} (run setup_cmd)")
    p = subprocess.run([HQX, sp], capture_output=True, text=True)
    if p.returncode != 0:
        raise UnitError("extractor failed: " + p.stderr[-2000:])
    return json.loads(p.stdout)["items"]


def build_request(ex, meta):
    o = ex["opts"]
    r = {
        "file": ex["file"],
        "kind": ex["kind"],
        "path": ex["path"],
        "panics": o.get("panics", meta["panics"]),
    }
    if ex.get("rename_calls"):
        r["rename_calls"] = ex["rename_calls"]
    if "rename_calls" in o:
        # user option rename_calls=FROM:TO,..: a call is directed to a differently named stand-in (same arguments)
        r["rename_calls"] = dict(r.get("rename_calls") or {}, **dict(x.split(":", 1) for x in o["rename_calls"].split(",")))
    if "trait" in o:
        r["trait"] = o["trait"]
    if "derive" in o:
        r["derive_keep"] = [x for x in o["derive"].split(",") if x and x != "Structural"]
    if "acc_type" in o:
        r["acc_type"] = o["acc_type"].replace("~", " ")
    if "float_casts" in o:
        r["float_casts"] = o["float_casts"]
    if "copied_collect_as" in o:
        r["copied_collect_as"] = o["copied_collect_as"]
    if "extend_with" in o:
        r["extend_with"] = o["extend_with"].split(",")
    if "await_yields" in o:
        r["await_yields"] = o["await_yields"]
    for k in ("index_recv", "drop_calls", "opaque_macros", "mut_params", "str_params", "string_exprs", "seq_args", "set_into_vec", "into_vec", "iter_on", "iter_vec", "keyed_mut_iter", "deref_params", "subst", "collect_as_set"):
        if k in o:
            r[k] = o[k].split(",")
    if "param_types" in o:
        r["param_types"] = dict(x.replace("~", " ").split(":", 1) for x in o["param_types"].split(","))
    if "field_types" in o:
        r["field_types"] = dict(x.replace("~", " ").split(":", 1) for x in o["field_types"].split(","))
    if o.get("copied_to_map") == "1":
        r["copied_to_map"] = True
    if o.get("entry_place") == "1":
        r["entry_place"] = True
    if "slice_stmt" in o:
        r["slice_stmt"] = o["slice_stmt"].replace("~", " ")
        if "slice_nth" in o:
            r["slice_nth"] = int(o["slice_nth"])
        if "slice_sig" in o:
            r["slice_sig"] = o["slice_sig"].replace("~", " ")
        if o.get("slice_body") == "1":
            r["slice_body"] = True
        if "slice_until" in o:
            r["slice_until"] = o["slice_until"].replace("~", " ")
        if "slice_tail" in o:
            r["slice_tail"] = o["slice_tail"].replace("~", " ")
    if o.get("slice_opt_return") == "1":
        r["slice_opt_return"] = True
    if o.get("slice_wrap_return") == "1":
        r["slice_wrap_return"] = True
    if o.get("option_combinators") == "1":
        r["option_combinators"] = True
    if o.get("keep_unreachable") == "1":
        r["keep_unreachable"] = True
    if o.get("map_collect") == "1":
        r["map_collect"] = True
    if o.get("slice_break_value") == "1":
        r["slice_break_value"] = True
    if o.get("opaque_into") == "1":
        r["opaque_into"] = True
    if "slice_group" in o:
        r["slice_group"] = o["slice_group"].replace("~", " ")
        for k in ("slice_sig", "slice_tail"):
            if k in o:
                r[k] = o[k].replace("~", " ")
    if "slice_from" in o or "slice_to" in o:
        r["slice"] = {"from": o.get("slice_from", "").replace("~", " ") or None,
                      "to": o.get("slice_to", "").replace("~", " ") or None,
                      "tail": o.get("slice_tail", "").replace("~", " ") or None,
                      "to_inclusive": o.get("slice_to_exclusive") != "1"}
    return r


NOPANIC_TAG = re.compile(r"//#\s*nopanic\b")
PCONLY_TAG = re.compile(r"//#\s*pconly\b")


COMMON_NAMES = {"get", "get_mut", "insert", "remove", "add", "push", "pop", "len", "is_empty", "contains", "contains_key", "clear",
                "iter", "new", "default", "clone", "take", "entry", "find", "find_mut", "extend", "keys", "values", "id", "min", "max"}


def pc_renames(twinned, opts):
    """which calls a partial-correctness twin redirects to `__pc` copies: every twinned name that is not a common
    std method name, plus the names (or `receiver.name` pairs) listed in pc_force=..., minus pc_keep=..."""
    keep = set(x for x in opts.get("pc_keep", "").split(",") if x)
    r = {k: v for k, v in twinned.items() if k not in COMMON_NAMES and k not in keep}
    for f in (x for x in opts.get("pc_force", "").split(",") if x):
        m = f.rsplit(".", 1)[-1]
        r[f] = twinned.get(m, m + "__pc")
    return r


def expand_twins(unit):
    """`twin=pc` on an extract fn: emit a second, partial-correctness copy `<name>__pc` of the same real
    function in diverge mode (N14) without the contract lines tagged `//! nopanic`; inside twins, calls to
    other twinned functions go to their `__pc` copies. The original stays in obligation mode (C09)."""
    import copy
    twinned = {}
    for kind, seg in unit["segments"]:
        if kind == "extract" and seg["kind"] == "fn" and seg["opts"].get("twin") == "pc":
            last = seg["path"].split("::")[-1]
            twinned[last] = last + "__pc"
    for name in unit["meta"].get("pc_twins", []):
        twinned[name] = name + "__pc"
    if not twinned:
        return unit
    segs = []
    strip_pc = lambda ls: [l for l in ls if not PCONLY_TAG.search(l)]
    for kind, seg in unit["segments"]:
        if kind == "extract" and seg["kind"] == "fn" and seg["opts"].get("pc") != "1" and not seg.get("_pcstripped"):
            import copy as _c
            orig_full = _c.deepcopy(seg)
            seg = dict(seg)
            seg["_pcstripped"] = True
            seg["_full"] = orig_full
            seg["contract"] = strip_pc(seg["contract"])
            seg["loops"] = {k: {"text": strip_pc(v["text"]), "opts": v["opts"]} for k, v in seg["loops"].items()}
            seg["hints"] = [dict(h, text=strip_pc(h["text"])) for h in seg["hints"]]
        if kind == "extract" and seg["kind"] == "fn" and seg["opts"].get("pc") == "1":
            # partial-correctness only (no obligation-mode original): diverge mode, calls go to __pc twins
            t = copy.deepcopy(seg)
            t["opts"]["panics"] = "diverge"
            props = t["opts"].get("props") or ",".join(unit["meta"]["props"])
            t["opts"]["props"] = ",".join(x for x in props.split(",") if x and x != "C09") or "none"
            t["rename_calls"] = pc_renames(twinned, seg["opts"])
            strip = lambda ls: [l for l in ls if not NOPANIC_TAG.search(l)]
            t["contract"] = strip(t["contract"])
            for lp in t["loops"].values():
                lp["text"] = strip(lp["text"])
            for h in t["hints"]:
                h["text"] = strip(h["text"])
            segs.append(("extract", t))
            continue
        segs.append((kind, seg))
        if kind == "extract" and seg["kind"] == "fn" and seg["opts"].get("twin") == "pc":
            t = copy.deepcopy(seg.get("_full", seg))
            last = seg["path"].split("::")[-1]
            t["opts"] = dict(seg["opts"])
            t["opts"]["panics"] = "diverge"
            t["opts"]["rename"] = last + "__pc"
            t["opts"].pop("twin")
            props = t["opts"].get("props") or ",".join(unit["meta"]["props"])
            t["opts"]["props"] = ",".join(x for x in props.split(",") if x and x != "C09") or "none"
            t["rename_calls"] = pc_renames(twinned, seg["opts"])
            if seg["opts"].get("pc_attrs"):
                t["opts"]["attrs"] = ";".join(x for x in (seg["opts"].get("attrs", ""), seg["opts"]["pc_attrs"]) if x)
            t["twin_of"] = seg["path"]
            strip = lambda ls: [l for l in ls if not NOPANIC_TAG.search(l)]
            t["contract"] = strip(t["contract"])
            for lp in t["loops"].values():
                lp["text"] = strip(lp["text"])
            for h in t["hints"]:
                h["text"] = strip(h["text"])
            segs.append(("extract", t))
    u2 = dict(unit)
    u2["segments"] = segs
    return u2


# reachability probes (HQ_REACH=1, audit only): `assert(hq_probe(k))` over an uninterpreted predicate fails exactly when the point is
# reachable (and, once assumed, constrains nothing else), so a probe that does NOT fail marks a point whose context is contradictory:
# an inconsistent stand-in contract, invariant or precondition in front of it - or code that really cannot be reached.
REACH = os.environ.get("HQ_REACH") == "1"
_PROBES = []


def new_probe(kind, where):
    _PROBES.append({"id": len(_PROBES), "kind": kind, "where": where})
    return len(_PROBES) - 1


class Assembled:
    def __init__(self):
        self.text = ""
        self.fn_ranges = []  # (start_line, end_line, fn_name, info)
        self.items = []
        self.trusted = []
        self.applied = []
        self.panic_sites = []
        self.lost = []


def assemble(unit, workdir, vacuity_twins=False):
    meta = unit["meta"]
    for (f, txt) in meta.get("expects", []):
        try:
            src = open(os.path.join(REPO, f)).read()
        except OSError:
            raise UnitError(f"LOST-ANCHOR expected file {f} missing")
        if re.sub(r"\s+", "", txt) not in re.sub(r"\s+", "", src):
            raise UnitError(f"LOST-ANCHOR {f}: expected text not found: {txt!r}")
    unit = expand_twins(unit)
    seen_items = set()
    dedup = []
    for kind, seg in unit["segments"]:
        if kind == "extract" and seg["kind"] in ("struct", "enum", "const", "type", "sig"):
            key = (seg["kind"], seg["path"], seg["file"])
            if key in seen_items:
                continue
            seen_items.add(key)
        dedup.append((kind, seg))
    unit = dict(unit)
    unit["segments"] = dedup
    extracts = [s[1] for s in unit["segments"] if s[0] == "extract"]
    reqs = [build_request(ex, meta) for ex in extracts]
    items = run_extractor(reqs, workdir)
    # a contracted function that no longer exists is dropped from the file (the rest of the unit is still decided; the property check
    # reports the missing function as undecided through the baseline); every other extraction error stops the unit
    def _lost_fn(ex, it):
        return ex["kind"] == "fn" and (it.get("error") or "").startswith("LOST-ANCHOR fn ") and " not found in " in it["error"]
    errs = [it["error"] for ex, it in zip(extracts, items) if it.get("error") and not _lost_fn(ex, it)]
    if errs:
        raise UnitError("; ".join(errs))
    out = []
    A = Assembled()

    def emit(txt):
        out.append(txt)

    def cur_line():
        return sum(t.count("\n") + 1 for t in out) + 1

    emit("// GENERATED by /verif/lib/hqv.py from %s and the current working tree of %s — do not edit" % (os.path.relpath(unit["path"], VERIF), REPO))
    emit("#![allow(unused_imports, unused_variables, dead_code, unused_mut, unused_parens, unused_braces, non_snake_case, unreachable_code, unreachable_patterns, unused_assignments)]")
    emit("#![feature(allocator_api)]")
    emit("use vstd::prelude::*;")
    emit("verus! {")
    it_iter = iter(zip(extracts, items))
    for kind, seg in unit["segments"]:
        if kind == "text":
            emit(seg)
            continue
        ex, item = next(it_iter)
        if item.get("error"):
            emit(f"// ---- LOST {ex['path']}: {item['error']}")
            A.lost.append(ex["path"])
            continue
        A.items.append((ex, item))
        src = f"{item['file']}:{item.get('line')}"
        if ex["kind"] in ("struct", "enum", "const", "type"):
            der = list(item.get("derives") or [])
            want = ex["opts"].get("derive", "")
            if "Structural" in want.split(","):
                der.append("Structural")
            emit(f"// ---- extracted {ex['kind']} {ex['path']} from {src}")
            if der:
                emit("#[derive(%s)]" % ", ".join(der))
            for a in ex["opts"].get("attrs", "").split(";"):
                if a:
                    emit(f"#[{a}]")
            txt = item["text"]
            if item.get("impl_header"):
                txt = item["impl_header"] + " {\n" + txt + "\n}"
            emit(txt)
            continue
        if ex["kind"] == "sig":
            shape = item["shape"]
            for k in ("arity", "receiver"):
                if k in ex["opts"] and str(shape[k]) != ex["opts"][k].replace("~", " "):
                    raise UnitError(f"LOST-ANCHOR {ex['path']}: signature shape changed ({k}: {shape[k]!r})")
            continue
        if ex["kind"] == "trait":
            # drift detection only
            want = ex["opts"].get("methods", "")
            have = sorted(f"{m['name']}/{m['arity']}" for m in item["methods"])
            if want and sorted(want.split(",")) != have:
                raise UnitError(f"LOST-ANCHOR trait {ex['path']} method list drifted: {have}")
            continue
        # fn
        shape = item["shape"]
        for k in ("arity", "receiver"):
            if k in ex["opts"] and str(shape[k]) != ex["opts"][k].replace("~", " "):
                raise UnitError(f"LOST-ANCHOR {ex['path']}: signature shape changed ({k}: {shape[k]!r})")
        retname = ex["opts"].get("ret", "r")
        sig = item["sig"]
        if ex["opts"].get("slice_sig"):
            sig = ex["opts"]["slice_sig"].replace("~", " ")
            item["ret"] = ex["opts"].get("slice_ret", "").replace("~", " ")
        if ex["opts"].get("rename"):
            sig = re.sub(r"\bfn\s+\w+", "fn " + ex["opts"]["rename"], sig, count=1)
        if item["ret"]:
            ret = item["ret"]
            sig = sig + f" -> ({retname}: {ret})"
        if shape.get("where") and not ex["opts"].get("slice_sig"):
            sig = sig + "\n    " + shape["where"]
        contract = "\n".join(ex["contract"]).rstrip()
        if REACH and "-> !" not in sig:
            pid = new_probe("return", ex["path"] + ("__pc" if ex.get("twin_of") else ""))
            cl = contract.split("\n") if contract else []
            ei = [i for i, l in enumerate(cl) if re.match(r"\s*ensures\b", l)]
            if ei:
                l = cl[ei[0]]
                rest = re.sub(r"^\s*ensures\b", "", l)
                cl[ei[0]] = "    ensures hq_probe(%d)," % pid + ("\n        " + rest.strip() if rest.strip() else "")
            else:
                di = [i for i, l in enumerate(cl) if re.match(r"\s*decreases\b", l)]
                at = di[0] if di else len(cl)
                cl.insert(at, "    ensures hq_probe(%d)," % pid)
            contract = "\n".join(cl)
        body = splice_body(item["body"], ex, item)
        hdr = item.get("impl_header")
        if ex["opts"].get("slice_sig") and not re.search(r"\bself\b", ex["opts"]["slice_sig"]) and not re.search(r"\bSelf\b", item.get("body") or ""):
            hdr = None  # a slice with a free-function signature is emitted outside the impl block
        fq = ex["path"] + ("__pc" if ex.get("twin_of") else "")
        emit(f"// ---- extracted fn {fq} from {src} (panics={build_request(ex, meta)['panics']})")
        if item.get("hoisted") and not ex.get("twin_of"):
            der = ex["opts"].get("hoisted_derive", "Clone,Copy")
            emit("\n".join(("#[derive(%s)]\n" % der if (l.startswith("pub enum") or l.startswith("pub struct")) else "") + l for l in item["hoisted"].split("\n")))
        if hdr and ex["opts"].get("impl_as"):
            # impl_as=TYPE: the method is emitted into `impl TYPE` - a stand-in of the real type declared in the unit (used when the
            # prelude already holds an abstract stand-in of the same type whose methods are the ones extracted here)
            if re.search(r"\sfor\s", hdr):
                # a trait impl: its methods become inherent methods of the stand-in (one impl block per extracted method is emitted,
                # which a trait impl cannot be split into); the trait's signatures are what the real impl has to match anyway (rustc)
                hdr = "impl " + ex["opts"]["impl_as"]
            else:
                hdr = re.sub(r"^impl(\s*<[^>]*>)?\s+[A-Za-z_][A-Za-z0-9_:]*", lambda m: "impl" + (m.group(1) or "") + " " + ex["opts"]["impl_as"], hdr, count=1)
        if hdr:
            emit(hdr + " {")
            if item.get("impl_assoc"):
                emit(item["impl_assoc"])
        for a in ex["opts"].get("attrs", "").split(";"):
            if a:
                emit(f"#[{a}]")
        start = cur_line()
        emit(sig)
        emit(contract)
        emit(body)
        end = cur_line() - 1
        if hdr:
            emit("}")
        emit("//@@ end of extracted fn")
        A.fn_ranges.append((start, end, fq, {"file": item["file"], "line": item["line"], "end_line": item.get("end_line"),
                                                    "residual_closures": item.get("residual_closures", 0),
                                                    "n_loops": len(item.get("loops") or []),
                                                    "props": ex["opts"].get("props", "").split(",") if ex["opts"].get("props") else meta["props"]}))
        # vacuity twin (thorough tier, HQ_VACUITY=1): same signature and `requires`, body `assert(false)`.
        # It must FAIL; if it verifies, the precondition is contradictory and everything proved under it is void.
        if os.environ.get("HQ_VACUITY") == "1":
            clines = ex["contract"]
            req_i = [i for i, l in enumerate(clines) if l.strip().startswith("requires")]
            if req_i:
                ens_i = [i for i, l in enumerate(clines) if l.strip().startswith("ensures") and i > req_i[0]]
                req_txt = "\n".join(clines[req_i[0]:(ens_i[0] if ens_i else len(clines))]).rstrip()
                if re.sub(r"//.*", "", req_txt).replace("requires", "").strip():
                    vsig = re.sub(r"\bfn\s+(\w+)", lambda m: "fn " + m.group(1) + "__vac", sig, count=1)
                    emit(f"// ---- extracted fn {fq}__vac from {src} (vacuity twin)")
                    if hdr:
                        emit(hdr + " {")
                    vstart = cur_line()
                    emit(vsig)
                    emit(req_txt)
                    emit("{ proof { assert(false); } hq_panic() }")
                    vend = cur_line() - 1
                    if hdr:
                        emit("}")
                    emit("//@@ end of extracted fn")
                    A.fn_ranges.append((vstart, vend, fq + "__vac", {"file": item["file"], "line": item["line"], "end_line": item.get("end_line"), "props": ["vacuity"]}))
        for ap in item.get("applied") or []:
            A.applied.append({"fn": fq, **ap})
        for ps in item.get("panic_sites") or []:
            A.panic_sites.append({"fn": fq, "file": item["file"], "mode": build_request(ex, meta)["panics"], **ps})
    if meta.get("broadcasts"):
        emit("broadcast use {" + ", ".join(meta["broadcasts"]) + "};")
    if REACH:
        emit("pub uninterp spec fn hq_probe(k: int) -> bool;")
    emit("proof fn __hq_canary() ensures false {}")
    emit("} // verus!")
    emit("fn main() {}")
    A.text = "\n".join(out) + "\n"
    # real line accounting: recompute fn ranges by searching markers (robust against multi-line emits)
    A.fn_ranges = recompute_ranges(A.text, A.fn_ranges)
    return A


def recompute_ranges(text, ranges):
    lines = text.split("\n")
    starts = {}
    for i, l in enumerate(lines, 1):
        m = re.match(r"// ---- extracted fn (\S+) from", l)
        if m:
            starts.setdefault(m.group(1), []).append(i)
    marks = sorted((i, n) for n, ii in starts.items() for i in ii)
    # every range ends where the next "// ----" marker (or canary) begins
    boundaries = [i for i, l in enumerate(lines, 1) if l.startswith("// ---- ") or l.startswith("proof fn __hq_canary") or l.startswith("//@@")]
    out = []
    used = {}
    for (_, _, name, info) in ranges:
        k = used.get(name, 0)
        used[name] = k + 1
        st = starts[name][k]
        nxt = [b for b in boundaries if b > st]
        en = (nxt[0] - 1) if nxt else len(lines)
        out.append((st, en, name, info))
    return out


# --------------------------------------------------------------------------------------------
# running verus


def run_verus(path, rlimit=30, seed=None, threads=None, extra=None, timeout=1500):
    cmd = ["verus", path, "--edition", "2024", "--output-json", "--time-expanded", "--error-format=json",
           "--multiple-errors", os.environ.get("HQ_MULTIPLE_ERRORS", "8"), "--rlimit", str(rlimit)]
    if seed is not None:
        cmd += ["--smt-option", f"smt.random_seed={seed}", "--smt-option", f"sat.random_seed={seed}"]
    if threads:
        cmd += ["--num-threads", str(threads)]
    if extra:
        cmd += extra
    t0 = time.time()
    try:
        p = subprocess.run(cmd, capture_output=True, text=True, timeout=timeout, cwd=os.path.dirname(path))
    except subprocess.TimeoutExpired:
        return {"timeout": True, "diags": [], "results": None, "wall": time.time() - t0, "cmd": " ".join(cmd), "raw": ""}
    diags = []
    for line in p.stderr.split("\n"):
        line = line.strip()
        if line.startswith("{") and '"$message_type"' in line:
            try:
                diags.append(json.loads(line))
            except Exception:
                pass
    res = None
    try:
        i = p.stdout.index("{")
        res = json.loads(p.stdout[i:])
    except Exception:
        res = None
    return {"timeout": False, "diags": diags, "results": res, "wall": time.time() - t0, "cmd": " ".join(cmd),
            "raw": p.stderr[-20000:], "rc": p.returncode}


def classify(diag):
    """-> 'semantic' | 'resource' | 'frontend' | 'note'"""
    if diag.get("level") not in ("error",):
        return "note"
    msg = diag.get("message", "")
    if msg.startswith("aborting due to"):
        return "note"
    low = msg.lower()
    if any(m in low for m in RESOURCE_MSGS):
        return "resource"
    if any(m in low for m in SEMANTIC_MSGS):
        return "semantic"
    return "frontend"


def locate(diag, A, fname):
    """map a diagnostic to (function name, clause text, line in generated file, is_vstd_clause)"""
    lines = A.text.split("\n")
    prim = [s for s in diag.get("spans", []) if s.get("is_primary")]
    allsp = diag.get("spans", [])
    fn = None
    fn_info = None
    where_line = None
    def _expansion_site(s):
        # a span inside a library macro (e.g. `unreachable!()` -> vstd): follow the expansion chain to the call site in the generated file
        seen = 0
        while s is not None and os.path.basename(s.get("file_name", "")) != os.path.basename(fname) and seen < 8:
            s = (s.get("expansion") or {}).get("span")
            seen += 1
        return s
    for s in sorted(allsp, key=lambda x: 0 if x.get("is_primary") else 1):
        if os.path.basename(s["file_name"]) != os.path.basename(fname):
            s = _expansion_site(s)
            if s is None:
                continue
        ln = s["line_start"]
        for (st, en, name, info) in A.fn_ranges:
            if st <= ln <= en:
                fn, fn_info = name, info
                where_line = ln
                break
        if fn:
            break
    clause = ""
    clause_line = None
    clause_tags = []
    vstd_clause = False
    if prim:
        s = prim[0]
        if os.path.basename(s["file_name"]) == os.path.basename(fname):
            clause_line = s["line_start"]
            full_clause = " ".join(t["text"].strip() for t in s.get("text", []))
            clause = full_clause[:400]
            clause_tags = tags_of(full_clause) or []      # (from the whole clause: the tag sits at its end, beyond the 400 characters kept)
        else:
            vstd_clause = True
            clause = f"<{s['file_name']}:{s['line_start']}>"
            site = _expansion_site(s)
            if site is not None:
                clause_line = site["line_start"]
                clause = " ".join(t["text"].strip() for t in site.get("text", []))[:400] + "   " + clause
    # labels
    labels = [s.get("label") for s in allsp if s.get("label")]
    # for a precondition failure the primary span is the call site, a secondary one the failed requires
    failed_req = None
    for s in allsp:
        if s.get("label") and "failed precondition" in s["label"]:
            if os.path.basename(s["file_name"]) == os.path.basename(fname):
                full_req = " ".join(t["text"].strip() for t in s.get("text", []))
                failed_req = full_req[:400]
                clause_tags = list(clause_tags) + (tags_of(full_req) or [])
            else:
                failed_req = f"<{s['file_name']}:{s['line_start']}>"
    return {"fn": fn, "fn_info": fn_info, "clause": clause, "clause_line": clause_line, "clause_tags": sorted(set(clause_tags)), "vstd_clause": vstd_clause,
            "labels": labels, "failed_requires": failed_req, "line": where_line}


def tags_of(text):
    m = re.search(r"//:\s*([C0-9 ,]+?)\s*(//#.*)?$", text or "")
    if not m:
        return None
    return [t for t in re.split(r"[ ,]+", m.group(1).strip()) if t]


def count_obligations(A):
    """obligation *sites* per function, counted from the assembled text (DESIGN §3.1(7a))"""
    lines = A.text.split("\n")
    per_fn = {}
    for (st, en, name, info) in A.fn_ranges:
        seg = "\n".join(lines[st - 1 : en])
        # contract part = up to first line that is exactly "{" (body start)
        n_ens = 0
        n_inv = 0
        mode = None
        depth_par = 0
        for l in seg.split("\n"):
            s = l.strip()
            if re.match(r"^(ensures|requires|invariant|decreases|recommends|invariant_except_break)\b", s):
                mode = s.split()[0]
                s = s[len(mode):].strip()
            if mode in ("ensures", "invariant", "invariant_except_break") and s and not s.startswith("//"):
                # clauses end with a comma at paren depth 0
                for ch in s:
                    if ch in "([{":
                        depth_par += 1
                    elif ch in ")]}":
                        depth_par -= 1
                if depth_par <= 0 and s.rstrip().endswith(","):
                    if mode == "ensures":
                        n_ens += 1
                    else:
                        n_inv += 1
                    depth_par = 0
            if s == "{" or s.startswith("{"):
                if mode in ("ensures", "requires", "decreases", "recommends"):
                    mode = None
        n_panic = len([p for p in A.panic_sites if p["fn"] == name and p["mode"] == "obligation"])
        n_assert = len(re.findall(r"\bassert\s*\(", seg)) + len(re.findall(r"\bassert\s+forall", seg))
        n_arith = len(re.findall(r"(?<![=<>!+\-*/&|])(\+=|-=|\*=)|(?<![\-=<>])\s[+\-*]\s", seg.split("\n{", 1)[-1]))
        per_fn[name] = {"ensures": n_ens, "loop_invariants": n_inv * 2, "panic_sites": n_panic, "proof_asserts": n_assert,
                        "arith_sites": n_arith,
                        "total": max(1, n_ens + n_inv * 2 + n_panic + n_assert + n_arith)}
    return per_fn


def scan_trusted(text):
    """every assumed item in the assembled file (DESIGN §3.1(6))"""
    found = []
    lines = text.split("\n")
    for i, l in enumerate(lines):
        s = l.strip()
        if s.startswith("//"):
            continue
        for kw in ("external_body", "assume_specification", "admit()", "assume(", "verifier::external", "uninterp spec fn", "axiom fn", "broadcast axiom"):
            if kw in s:
                # find the name: next line(s) containing fn/struct
                name = None
                for j in range(i, min(i + 8, len(lines))):
                    m = re.search(r"\b(?:fn|struct|enum|trait|impl)\s+([A-Za-z_][A-Za-z0-9_:<>]*)", lines[j])
                    if m:
                        name = m.group(1)
                        break
                    m = re.search(r"assume_specification\s*(?:<[^>]*>)?\s*\[\s*([^\]]+)\]", lines[j])
                    if m:
                        name = m.group(1).strip()
                        break
                found.append((kw.rstrip("("), name or s[:60], i + 1))
                break
    return found

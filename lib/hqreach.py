#!/usr/bin/env python3
"""Reachability audit (vacuity beyond preconditions).  usage: HQ_REACH=1 python3 lib/hqreach.py [unit...]
Every extracted function gets probes `assert(hq_probe(k))` (hq_probe uninterpreted) at the start and at the end of every loop body,
and `ensures hq_probe(k)` for its returns. A probe FAILS iff its point is reachable under the contracts in front of it; a probe that
verifies sits in a contradictory context (inconsistent stand-in contract / invariant / precondition) - or in code that really
cannot be reached (a loop body that always leaves by break/return, a function whose every path diverges in diverge mode).
The list of probes that verify is compared with reach_expected.json (reviewed by hand, with the reason); anything else is reported."""
import json, os, re, sys, shutil
os.environ["HQ_REACH"] = "1"
os.environ.setdefault("HQ_MULTIPLE_ERRORS", "400")
sys.path.insert(0, os.path.dirname(os.path.abspath(__file__)))
import hqv  # noqa
VERIF = os.path.dirname(os.path.dirname(os.path.abspath(__file__)))


def audit(unit):
    del hqv._PROBES[:]
    work = hqv.scratch_dir()
    try:
        U = hqv.parse_unit(os.path.join(VERIF, "units", unit + ".vrs"))
        A = hqv.assemble(U, work)
        gen = os.path.join(work, unit + ".rs")
        open(gen, "w").write(A.text)
        vr = hqv.run_verus(gen, rlimit=60)
        probes = list(hqv._PROBES)
        hit = set()
        other = []
        for d in vr["diags"]:
            if d.get("level") != "error":
                continue
            ids = []
            msg = d.get("message", "")
            for sp in d.get("spans", []):
                # the failed assertion itself, resp. the failed ensures clause (other spans may cover a whole body's text)
                if "assertion failed" in msg and not sp.get("is_primary"):
                    continue
                if "postcondition" in msg and "failed this postcondition" not in (sp.get("label") or ""):
                    continue
                for t in sp.get("text", []):
                    ids += re.findall(r"hq_probe\((\d+)\)", t["text"][max(0, t["highlight_start"] - 1): t["highlight_end"] - 1])
            if ids:
                hit.update(int(i) for i in ids)
            elif not d.get("message", "").startswith("aborting") and "postcondition not satisfied" not in d.get("message", ""):
                other.append(d.get("message", "")[:160])
        if not vr["diags"] or vr.get("timeout"):
            other.append("NO DIAGNOSTICS: " + (vr.get("raw") or "")[-600:])
        return probes, hit, other, vr
    finally:
        shutil.rmtree(work, ignore_errors=True)


def main(argv):
    units = argv or sorted(f[:-4] for f in os.listdir(os.path.join(VERIF, "units")) if f.endswith(".vrs"))
    try:
        expected = json.load(open(os.path.join(VERIF, "reach_expected.json")))
    except OSError:
        expected = {}
    bad = 0
    as_json = os.environ.get("HQ_REACH_JSON") == "1"
    rows = {}
    for u in units:
        probes, hit, other, vr = audit(u)
        unreached = [p for p in probes if p["id"] not in hit]
        exp = expected.get(u, {})
        new = [p for p in unreached if f"{p['where']} {p['kind']}" not in exp]
        print(f"reach {u}: probes={len(probes)} reachable={len(probes) - len(unreached)} unreached={len(unreached)} "
              f"expected={len(unreached) - len(new)} unexplained={len(new)} other_errors={len(set(other))} wall={vr['wall']:.1f}s")
        for p in new:
            print(f"   UNREACHED {p['where']} [{p['kind']}]")
        for o in sorted(set(other))[:6]:
            print(f"   other: {o}")
        bad += len(new)
        rows[u] = {"probes": len(probes), "reachable": len(probes) - len(unreached), "unreached_expected": len(unreached) - len(new),
                   "unexplained": [f"{p['where']} [{p['kind']}]" for p in new], "ran": bool(vr["diags"]) and not vr.get("timeout")}
    if as_json:
        print("REACH-JSON " + json.dumps(rows))
    return 1 if bad else 0


if __name__ == "__main__":
    sys.exit(main(sys.argv[1:]))

#!/usr/bin/env python3
"""Property-level check: ./check <Cnn> [--tier quick|thorough]"""
import argparse
import concurrent.futures
import json
import os
import re
import sys
import time

import hqv
import hqcheck
from hqv import VERIF, REPO, UnitError


def relevant(prop, failure, unit_props):
    """does this failing obligation speak about property `prop`?  A clause tag names the properties a clause was written for; the
    function's (else the unit's) property list names the properties the function serves. A failing obligation is reported for the
    union: a change that breaks a contracted function is a violation of every property that function is evidence for (a tag that is
    too narrow must not hide it - found with seed C13-2)."""
    tags = set(hqv.tags_of(failure.get("clause") or "") or []) | set(hqv.tags_of(failure.get("failed_requires") or "") or []) | set(failure.get("clause_tags") or [])
    fn_props = set((failure.get("fn_info") or {}).get("props") or unit_props)
    return prop in (tags | fn_props)


def obligation_id(unit, f):
    c = f.get("failed_requires") or f.get("clause") or ""
    c = re.sub(r"\s*//:.*$", "", c).strip()
    return f"{unit}::{f['fn']}::{f['msg']}::{c[:160]}"


def match_known(known, prop, unit, f, any_prop=False):
    """the listed finding this failing obligation is, if any. A finding is *reported* (KNOWN-FINDING line) by the checks of the
    properties it violates (`property`, `also_violates`); the checks of the other properties the function serves leave the obligation
    out (any_prop=True: it is a listed finding of another property, neither a violation nor a finding of this one)"""
    for k in known.get("findings", []):
        if not any_prop and k.get("property") != prop and prop not in (k.get("also_violates") or []):
            continue
        if k.get("unit") and k["unit"] != unit:
            continue
        if k.get("function") and k["function"] != f["fn"]:
            continue
        hay = (f.get("clause") or "") + " || " + (f.get("failed_requires") or "") + " || " + (f.get("msg") or "")
        if k.get("clause_contains") and re.sub(r"\s+", "", k["clause_contains"]) not in re.sub(r"\s+", "", hay):
            continue
        if k.get("requires_contains") and re.sub(r"\s+", "", k["requires_contains"]) not in re.sub(r"\s+", "", f.get("failed_requires") or ""):
            continue
        return k
    return None


def run_units(units, rlimit=30, seed=None, workers=4):
    out = {}
    with concurrent.futures.ThreadPoolExecutor(max_workers=workers) as ex:
        futs = {ex.submit(_safe_verify, u, rlimit, seed): u for u in units}
        for fu in concurrent.futures.as_completed(futs):
            out[futs[fu]] = fu.result()
    return out


def _safe_verify(u, rlimit, seed):
    try:
        R, A = hqcheck.verify_unit(u, rlimit=rlimit, seed=seed)
        return ("ok", R, A)
    except UnitError as e:
        return ("uniterror", str(e), None)
    except Exception as e:  # pragma: no cover
        return ("uniterror", f"internal error: {e!r}", None)


def _unit_json(unit, repo=None, seed=None, rlimit=None, timeout=1500, vacuity=False):
    """run `check unit <unit> --json` in a subprocess (optionally against another copy of the sources)"""
    import subprocess
    env = dict(os.environ)
    if vacuity:
        env["HQ_VACUITY"] = "1"
    if repo:
        env["HQ_REPO"] = repo
    cmd = [os.path.join(VERIF, "check"), "unit", unit, "--json"]
    if seed is not None:
        cmd += ["--seed", str(seed)]
    if rlimit is not None:
        cmd += ["--rlimit", str(rlimit)]
    try:
        p = subprocess.run(cmd, env=env, capture_output=True, text=True, timeout=timeout)
    except subprocess.TimeoutExpired:
        return {"unit": unit, "status": "undecided", "reason": "timeout", "failures": [], "undecided": []}
    for line in p.stdout.splitlines():
        if line.startswith("HQJSON "):
            return json.loads(line[7:])
    return {"unit": unit, "status": "undecided", "reason": (p.stdout + p.stderr)[-400:], "failures": [], "undecided": []}


def run_thorough(prop, pc, units, seed):
    """thorough tier = quick + (a) solver-stability run (3 more seeds, one of them at 4x rlimit) of every unit and
    (b) the mutant audit: every committed property-breaking edit (mutants.json, seeded/<Cnn>-*/patch.diff) is applied to a scratch
    copy of the sources and must make an obligation of the property's units fail; survivors are reported as weak contracts.
    Neither part can turn a held property into an alarm: they describe how much the green result is worth."""
    import shutil
    import subprocess
    import tempfile
    out = {"stability": [], "mutants": [], "weak_contracts": []}
    jobs = [(u, sd, rl) for u in units for (sd, rl) in ((seed + 11, 30), (seed + 12, 30), (seed + 13, 120))]
    with concurrent.futures.ThreadPoolExecutor(max_workers=6) as ex:
        futs = {ex.submit(_unit_json, u, None, sd, rl): (u, sd, rl) for (u, sd, rl) in jobs}
        for fu in concurrent.futures.as_completed(futs):
            u, sd, rl = futs[fu]
            r = fu.result()
            # obligations that are listed findings fail on every seed by definition: they are not instability
            known = hqcheck.load_known()
            unexpected = [f for f in r["failures"] if not match_known(known, prop, u, {"fn": f["fn"], "clause": f.get("clause"), "failed_requires": f.get("failed_requires"), "msg": f.get("msg")}, any_prop=True)]
            out["stability"].append({"unit": u, "seed": sd, "rlimit": rl, "status": r["status"], "failures": len(unexpected),
                                     "listed_findings_failing": len(r["failures"]) - len(unexpected),
                                     "failing": [f["fn"] + ": " + f["clause"][:80] for f in unexpected][:5]})
    out["unstable_units"] = sorted({x["unit"] for x in out["stability"] if x["status"] != "ok" or x["failures"]})
    # (c) vacuity: every function with a `requires` gets a twin with the same precondition and body `assert(false)`; the twin must fail
    out["vacuity"] = {}
    out["vacuous"] = []
    with concurrent.futures.ThreadPoolExecutor(max_workers=6) as ex:
        for u, r in zip(units, ex.map(lambda u: _unit_json(u, vacuity=True), units)):
            vac = [f for f in r.get("fns", []) if f.endswith("__vac")]
            failed = {f["fn"] for f in r["failures"]}
            bad = [v for v in vac if v not in failed] if r["status"] == "ok" else []
            out["vacuity"][u] = {"twins": len(vac), "failed_as_expected": len([v for v in vac if v in failed]), "status": r["status"]}
            out["vacuous"] += [f"{u}::{v}" for v in bad]
    # (c2) reachability audit: probes at every loop body start/end and at the returns of every extracted function must be reachable
    # under the contracts in front of them (an inconsistent stand-in contract or invariant makes everything behind it verify)
    out["reach"] = {}
    out["unreachable_points"] = []
    try:
        pr = subprocess.run([sys.executable, os.path.join(VERIF, "lib", "hqreach.py")] + list(units), capture_output=True, text=True, timeout=3000,
                            env=dict(os.environ, HQ_REACH="1", HQ_REACH_JSON="1"))
        for line in pr.stdout.splitlines():
            if line.startswith("REACH-JSON "):
                out["reach"] = json.loads(line[len("REACH-JSON "):])
        for u, r in out["reach"].items():
            out["unreachable_points"] += [f"{u}: {x}" for x in r["unexplained"]] + ([] if r["ran"] else [f"{u}: audit did not run"])
    except Exception as e:  # the audit is additional evidence; its failure to run is reported, not hidden
        out["reach"] = {"error": str(e)[:200]}
    known0 = hqcheck.load_known()

    def _base_rc(u):
        try:
            b = json.load(open(os.path.join(VERIF, "baseline", u + ".json")))
            return b.get("residual_closures_max", b.get("residual_closures", {}))
        except Exception:
            return {}

    def _real_failures(u, r):
        """failures of a unit run that count: not a listed finding, not inside a function with new un-normalised closures"""
        brc = _base_rc(u)
        try:
            _b = json.load(open(os.path.join(VERIF, "baseline", u + ".json")))
            bl = _b.get("loops")
            bla = _b.get("loops_all")
        except Exception:
            bl = bla = None
        def _loops_changed(f):
            if bla is not None and "nl" in f:
                return f["nl"] not in bla.get(f["fn"], [0])
            return bl is not None and "nl" in f and f["nl"] != bl.get(f["fn"], 0)
        return [f for f in r["failures"] if not match_known(known0, prop, u, f, any_prop=True) and not (f.get("rc", 0) > brc.get(f["fn"], 0)) and not _loops_changed(f)]
    # mutants
    muts = []
    mfile = os.path.join(VERIF, "mutants.json")
    if os.path.exists(mfile):
        for m in json.load(open(mfile)).get(prop, []):
            muts.append(dict(m, kind="edit"))
    import glob
    for d in sorted(glob.glob(os.path.join(VERIF, "seeded", prop + "-*"))):
        if os.path.exists(os.path.join(d, "patch.diff")):
            muts.append({"id": os.path.basename(d), "kind": "patch", "patch": os.path.join(d, "patch.diff"), "units": units})

    def one(m):
        root = tempfile.mkdtemp(prefix="hqmut.", dir=os.environ.get("VERIF_SCRATCH", "/var/tmp"))
        try:
            shutil.copytree(os.path.join(REPO, "crates"), os.path.join(root, "crates"))
            if m["kind"] == "patch":
                p = subprocess.run(["patch", "-p1", "-s", "-i", m["patch"]], cwd=root, capture_output=True, text=True)
                if p.returncode != 0:
                    return {"id": m["id"], "result": "not-applicable (patch does not apply to the current tree)"}
            else:
                fp = os.path.join(root, m["file"])
                src = open(fp).read()
                if m["old"] not in src:
                    return {"id": m["id"], "result": "not-applicable (anchor text not in the current tree)"}
                open(fp, "w").write(src.replace(m["old"], m["new"], 1))
            killed_by = []
            und = []
            for u in m.get("units") or units:
                r = _unit_json(u, repo=root)
                # obligations that are listed findings fail with or without the mutation: they kill nothing
                fl = _real_failures(u, r)
                if fl:
                    killed_by += [f"{u}::{f['fn']}: {f['msg']}: {f['clause'][:100]}" for f in fl][:3]
                    break
                if r["status"] != "ok":
                    und.append(f"{u}: {r['reason'][:150]}")
                elif [f for f in r["failures"] if not match_known(known0, prop, u, f, any_prop=True)]:
                    # obligations fail, but only in functions whose loop / closure structure differs from the baseline: the policy's
                    # answer for the property check is "undecided" (exit 2), and so it is here - not a survivor
                    und.append(f"{u}: failing obligations only in functions whose loop or closure structure changed (undecided by policy)")
            if not killed_by and pc.get("kani"):
                # Kani kernels of the property (the whole quick check against the mutated sources)
                env = dict(os.environ, HQ_REPO=root)
                try:
                    pr = subprocess.run([os.path.join(VERIF, "check"), prop, "--tier", "quick"], env=env, capture_output=True, text=True, timeout=3000)
                    vl = [l for l in pr.stdout.splitlines() if l.startswith("VIOLATION")]
                    if pr.returncode == 1 and vl:
                        killed_by = [v[:200] for v in vl[:2]]
                except subprocess.TimeoutExpired:
                    und.append("kani: timeout")
            return {"id": m["id"], "note": m.get("note", ""), "result": "killed" if killed_by else ("undecided" if und else "SURVIVED"),
                    "by": killed_by, "undecided": und}
        finally:
            shutil.rmtree(root, ignore_errors=True)

    with concurrent.futures.ThreadPoolExecutor(max_workers=5) as ex:
        for r in ex.map(one, muts):
            out["mutants"].append(r)
    # (d) harmless-refactoring audit: committed behaviour-preserving patches (harmless.json; written by blind agents, each compiles and
    # passes the pinned tests) are applied to a scratch copy; no unit of the property may report a failing obligation for them
    # (undecided = exit 2 is allowed). A hit is a false alarm of the machinery, reported here; it does not change the verdict on /repo.
    out["harmless"] = []
    hfile = os.path.join(VERIF, "harmless.json")
    hp = [h for h in (json.load(open(hfile)).get("patches", []) if os.path.exists(hfile) else []) if set(h.get("units", [])) & set(units)]

    def one_h(h):
        root = tempfile.mkdtemp(prefix="hqharm.", dir=os.environ.get("VERIF_SCRATCH", "/var/tmp"))
        try:
            shutil.copytree(os.path.join(REPO, "crates"), os.path.join(root, "crates"))
            pr = subprocess.run(["patch", "-p1", "-s", "-i", os.path.join(VERIF, h["patch"])], cwd=root, capture_output=True, text=True)
            if pr.returncode != 0:
                return {"id": h["id"], "result": "not-applicable (patch does not apply to the current tree)"}
            alarms, und = [], []
            for u in [x for x in h["units"] if x in units]:
                r = _unit_json(u, repo=root)
                fl = _real_failures(u, r)
                alarms += [f"{u}::{f['fn']}: {f['msg']}: {f['clause'][:100]}" for f in fl][:3]
                if r["status"] != "ok":
                    und.append(f"{u}: {r['reason'][:120]}")
            return {"id": h["id"], "function": h.get("function"), "result": "FALSE-ALARM" if alarms else ("undecided" if und else "no alarm"), "by": alarms, "undecided": und}
        finally:
            shutil.rmtree(root, ignore_errors=True)

    with concurrent.futures.ThreadPoolExecutor(max_workers=5) as ex:
        for r in ex.map(one_h, hp):
            out["harmless"].append(r)
    out["false_alarms_on_harmless"] = [r["id"] for r in out["harmless"] if r["result"] == "FALSE-ALARM"]
    out["weak_contracts"] = [r["id"] for r in out["mutants"] if r["result"] == "SURVIVED"]
    out["mutants_killed"] = sum(1 for r in out["mutants"] if r["result"] == "killed")
    out["mutants_total"] = len(out["mutants"])
    print(f"{prop}: thorough: reachability probes={sum(r.get('probes', 0) for r in out['reach'].values() if isinstance(r, dict))} unexplained_unreachable={out['unreachable_points']}")
    print(f"{prop}: thorough: vacuity twins={sum(v['twins'] for v in out['vacuity'].values())} vacuous={out['vacuous']}")
    print(f"{prop}: thorough: harmless refactorings={len(out['harmless'])} false_alarms={out['false_alarms_on_harmless']} "
          f"undecided={[r['id'] for r in out['harmless'] if r['result'] == 'undecided']}")
    print(f"{prop}: thorough: stability runs={len(out['stability'])} unstable_units={out['unstable_units']} "
          f"mutants killed={out['mutants_killed']}/{out['mutants_total']} survived={out['weak_contracts']} "
          f"undecided={[r['id'] for r in out['mutants'] if r['result'] == 'undecided']}")
    return out


def main(argv):
    ap = argparse.ArgumentParser()
    ap.add_argument("prop")
    ap.add_argument("--tier", default=os.environ.get("VERIF_TIER", "quick"), choices=["quick", "thorough"])
    ap.add_argument("--replay", default=None)
    args = ap.parse_args(argv)
    prop = args.prop
    seed = int(os.environ.get("VERIF_SEED", "0") or 0)
    t0 = time.time()
    cfg = hqcheck.load_config()
    if prop not in cfg["properties"]:
        print(f"property {prop} is not claimed (see MANIFEST.json not_applicable)")
        return 2
    pc = cfg["properties"][prop]
    known = hqcheck.load_known()
    units = pc["units"]
    if args.replay:
        print(open(args.replay).read())
        print("(Verus gives no counterexample; the replay file names the failed obligation and carries the verifier output. "
              "Re-run: ./check %s --tier quick)" % prop)
        return 0

    results = run_units(units, seed=(seed or None))
    violations = []
    known_hits = []
    known_elsewhere = []
    undecided = []
    fn_rows = []
    total_obl = 0
    discharged = 0
    known_obl = 0
    trusted = set()
    applied_rules = {}
    panic_sites = []
    samples = []
    smt_ms = 0
    cmds = []
    verus_wall = 0.0

    for u in units:
        st, R, A = results[u]
        if st != "ok":
            undecided.append(f"{u}: {R}")
            continue
        cmds.append(R.cmd)
        verus_wall += R.wall
        smt_ms += R.smt_ms
        unit_props = []
        try:
            unit_props = hqv.parse_unit(hqcheck.unit_path(u))["meta"]["props"]
        except Exception:
            pass
        bpath = os.path.join(VERIF, "baseline", u + ".json")
        if not os.path.exists(bpath):
            undecided.append(f"{u}: no baseline")
            continue
        base = json.load(open(bpath))
        if R.status != "ok":
            undecided.append(f"{u}: {R.reason[:800]}")
        for (k, n, _) in R.trusted:
            trusted.add(f"{k}: {n}")
        for ap_ in R.applied:
            applied_rules[ap_["rule"]] = applied_rules.get(ap_["rule"], 0) + 1
        # functions of this unit that serve this property
        my_fns = [n for n, info in R.fn_info.items() if prop in (info.get("props") or unit_props) or prop in getattr(R, "fn_tags", {}).get(n, [])]
        missing = [f for f in base["functions"] if f not in R.fn_info]
        if missing:
            undecided.append(f"{u}: LOST-ANCHOR functions missing from extraction: {missing}")
        # candidate failures
        cand = [f for f in R.failures if relevant(prop, f, unit_props)]
        # stability: a candidate must reproduce on two more seeds, one of them with 4x rlimit (listed findings are not re-run:
        # they are reported as KNOWN-FINDING while they fail and simply stop being reported when they no longer do)
        stable = cand
        if [f for f in cand if not match_known(known, prop, u, f, any_prop=True)]:
            for (sd, rl) in ((seed + 1, 30), (seed + 2, 120)):
                st2, R2, _ = _safe_verify(u, rl, sd)
                if st2 != "ok":
                    stable = []
                    undecided.append(f"{u}: re-run failed: {R2}")
                    break
                ids2 = {obligation_id(u, f) for f in R2.failures}
                flaky = [f for f in stable if obligation_id(u, f) not in ids2]
                for f in flaky:
                    undecided.append(f"{u}: flaky obligation (seed {sd}): {obligation_id(u, f)}")
                stable = [f for f in stable if obligation_id(u, f) in ids2]
        failing_fns = set()
        for f in stable:
            oid = obligation_id(u, f)
            failing_fns.add(f["fn"])
            k = match_known(known, prop, u, f)
            if k:
                known_hits.append((k, oid))
                continue
            k2 = match_known(known, prop, u, f, any_prop=True)
            if k2:
                known_elsewhere.append(k2.get("id"))
                continue
            # a closure that survived the normalisation is opaque to the verifier when it is handed to a std combinator: a failing
            # obligation in such a function is an unsupported construct (exit 2), unless the same function had closures when it was baselined
            rc = (f.get("fn_info") or {}).get("residual_closures", 0)
            if rc > base.get("residual_closures_max", base.get("residual_closures", {})).get(f["fn"], 0):
                undecided.append(f"{u}: failing obligation in a function that now contains {rc} closure(s) the normaliser does not expand "
                                 f"(unsupported construct, not a verdict): {oid}")
                continue
            # loop contracts are attached by loop ordinal: when the number of loops of the function differs from the baselined one (a loop
            # was added, removed or produced by a normalisation rule that did not fire before), the invariants may sit on the wrong loops
            nl = (f.get("fn_info") or {}).get("n_loops", 0)
            if ("loops_all" in base and nl not in base["loops_all"].get(f["fn"], [0])) or ("loops_all" not in base and "loops" in base and nl != base["loops"].get(f["fn"], 0)):
                undecided.append(f"{u}: failing obligation in a function whose loop structure changed ({base['loops'].get(f['fn'], 0)} -> {nl} loops; "
                                 f"loop contracts are attached by ordinal - lost anchor, not a verdict): {oid}")
                continue
            if f["fn"] not in base["functions"] and f["fn"] not in base.get("known_failing_functions", []):
                undecided.append(f"{u}: failing obligation in a function that is not in the baseline: {oid}")
                continue
            violations.append((u, f, oid))
        # obligations accounting (sites, counted from the assembled text)
        for n in my_fns:
            ob = R.obligations.get(n, {"total": 1})
            total_obl += ob["total"]
            bad_all = [f for f in R.failures if f["fn"] == n]
            # obligations that are listed findings are not claimed: they are taken out of the count on both sides and reported
            # separately (coverage.known_finding_obligations)
            kn_here = [f for f in bad_all if match_known(known, prop, u, f, any_prop=True)]
            known_obl += len(kn_here)
            bad_here = [f for f in bad_all if f not in kn_here]
            und_here = [x for x in R.undecided if x.get("fn") == n]
            ok = not bad_here and not und_here and R.status == "ok"
            total_obl -= len(kn_here)
            if ok:
                discharged += ob["total"] - len(kn_here)
            else:
                discharged += max(0, ob["total"] - len(kn_here) - len(bad_here) - len(und_here))
            info = R.fn_info[n]
            fn_rows.append({"function": n, "unit": u, "source": f"{info['file']}:{info['line']}", "backend": "verus/z3",
                            "obligation_sites": ob, "verified": ok, "smt_ms": round(R.fn_times.get(n.replace("::", "::"), 0), 1)})
        for ps in R.panic_sites:
            if ps["fn"] in my_fns:
                panic_sites.append(ps)
        # a few sample obligations written out
        if A is not None and len(samples) < 6:
            lines = A.text.split("\n")
            for (s0, e0, n, info) in A.fn_ranges:
                if n in my_fns and len(samples) < 6:
                    seg = lines[s0 - 1 : min(e0, s0 + 14)]
                    ens = [l.strip() for l in seg if l.strip() and not l.strip().startswith("//")][:6]
                    samples.append({"unit": u, "function": n, "source": f"{info['file']}:{info['line']}", "contract_head": ens})

    # Kani kernels (complete, loop-free) — optional per property
    kani_rows = []
    if pc.get("kani"):
        import hqkani
        krows, kviol, kund = hqkani.run(prop, pc["kani"], tier=args.tier)
        kani_rows = krows
        for kv in kviol:
            violations.append(("kani", kv, kv["oid"]))
        undecided += kund
        for kr in krows:
            if kr["kind"].startswith("bounded"):
                continue  # bounded stand-ins are reported under coverage.bounded, never counted as proved
            total_obl += kr.get("checks", 1)
            if kr["status"] == "SUCCESS":
                discharged += kr.get("checks", 1)

    thorough = None
    if args.tier == "thorough":
        thorough = run_thorough(prop, pc, units, seed)
        for v in thorough.get("vacuous", []):
            undecided.append(f"VACUOUS precondition (its vacuity twin verified): {v}")
        for v in thorough.get("unreachable_points", []):
            undecided.append(f"UNREACHABLE point (a reachability probe verified; contradictory context in front of it?): {v}")

    wall = time.time() - t0
    os.makedirs(os.path.join(VERIF, "evidence"), exist_ok=True)
    os.makedirs(os.path.join(VERIF, "replay"), exist_ok=True)
    rc = 0
    vio_lines = []
    seen_rp = set()
    for (u, f, oid) in violations:
        safe = re.sub(r"[^A-Za-z0-9_.-]+", "_", f"{prop}-{u}-{f.get('fn')}")[:120]
        rp = os.path.join(VERIF, "replay", safe + ".txt")
        with open(rp, "a" if rp in seen_rp else "w") as fh:
            seen_rp.add(rp)
            fh.write(f"property: {prop}\nfailed obligation: {oid}\nunit: {u}\nfunction: {f.get('fn')}\n")
            fi = f.get("fn_info") or {}
            fh.write(f"real source: {REPO}/{fi.get('file')}:{fi.get('line')}-{fi.get('end_line')}\n")
            fh.write(f"verifier message: {f.get('msg')}\nclause: {f.get('clause')}\nfailed requires: {f.get('failed_requires')}\n")
            fh.write("counterexample: " + (f.get("counterexample") or "none (Verus produces no models) — no-failing-input-found") + "\n")
            fh.write("\n---- verifier output ----\n" + (f.get("rendered") or "") + "\n")
        tail = "" if f.get("counterexample") else " no-failing-input-found"
        vio_lines.append(f"VIOLATION property={prop} replay={rp} obligation={oid!r}{tail}")
        rc = 1
    for (k, oid) in known_hits:
        print(f"KNOWN-FINDING: property={prop} {k.get('what_fails')} [{oid}]")
    for l in vio_lines:
        print(l)
    if undecided and rc == 0:
        rc = 2
    for x in undecided:
        print("UNDECIDED:", x[:1500])

    ev = {
        "property_id": prop,
        "tier": args.tier,
        "seed": seed,
        "level": "proof",
        "coverage": {
            "obligations": total_obl,
            "discharged": discharged,
            "checker_cmd": "; ".join(cmds[:3]) + (" ; ..." if len(cmds) > 3 else ""),
            "trusted_base": sorted(trusted) + pc.get("trusted_extra", []),
            "units": units,
            "functions_under_contract": fn_rows,
            "kani_harnesses": [k for k in kani_rows if not k["kind"].startswith("bounded")],
            "bounded": [k for k in kani_rows if k["kind"].startswith("bounded")],
            "normalisations_applied": applied_rules,
            "panic_sites_in_scope": len(panic_sites),
            "canary_failed_as_expected": all(results[u][0] == "ok" and results[u][1].canary_failed for u in units),
            "known_findings_hit": [k.get("id") for (k, _) in known_hits],
            "known_finding_obligations": known_obl,
            "known_findings_of_other_properties_left_out": sorted(set(known_elsewhere)),
            "known_findings_note": ("obligations/discharged count what this run claims as proved; the %d obligation(s) that are listed findings (known_findings.json: genuine defects of /repo recorded, not repaired) fail, are reported as KNOWN-FINDING and are excluded from both numbers" % known_obl) if known_obl else "",
            "undecided": undecided[:20],
            "samples": samples,
            "solver_time_ms": smt_ms,
            "verus_wall_s": round(verus_wall, 2),
            "obligation_counting_rule": "sites counted from the assembled Verus text per function: ensures clauses + 2x loop-invariant clauses + panic sites (assert!/unreachable!/unwrap/expect/index) in obligation mode + proof asserts + arithmetic sites; Verus discharges each as one or more SMT queries",
        },
        "assumptions": pc.get("assumptions", []),
        "thorough": thorough,
        "wall_s": round(wall, 2),
        "violations": len(violations),
    }
    # runs against another copy of the sources (HQ_REPO: seed / mutant experiments) must not clobber the evidence of /repo
    ev_dir = os.path.join(VERIF, "evidence") if os.path.realpath(REPO) == os.path.realpath("/repo") else os.path.join(VERIF, "build", "evidence-alt")
    os.makedirs(ev_dir, exist_ok=True)
    with open(os.path.join(ev_dir, prop + ".json"), "w") as fh:
        json.dump(ev, fh, indent=1)
    print(f"{prop}: tier={args.tier} units={len(units)} functions={len(fn_rows)} obligations={total_obl} discharged={discharged} "
          f"violations={len(violations)} known={len(known_hits)} undecided={len(undecided)} wall={wall:.1f}s -> exit {rc}")
    return rc

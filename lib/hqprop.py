#!/usr/bin/env python3
"""Property-level check: ./check <Cnn> [--tier quick|thorough]"""
import argparse
import concurrent.futures
import json
import os
import re
import sys
import time

import hqv
import hqcheck
from hqv import VERIF, REPO, UnitError


def relevant(prop, failure, unit_props):
    """does this failing obligation speak about property `prop`? (clause tag > fn props > unit props)"""
    tags = hqv.tags_of(failure.get("clause") or "") or hqv.tags_of(failure.get("failed_requires") or "")
    if tags:
        return prop in tags
    fn_props = (failure.get("fn_info") or {}).get("props") or unit_props
    if failure.get("vstd_clause") or (failure.get("failed_requires") or "").startswith("<"):
        # untagged panic site (unwrap / index / assert / overflow): a C09 obligation when the fn serves C09
        if "C09" in fn_props:
            return prop == "C09"
    if failure.get("msg", "").startswith("possible arithmetic") and "C09" in fn_props:
        return prop == "C09"
    return prop in fn_props


def obligation_id(unit, f):
    c = f.get("failed_requires") or f.get("clause") or ""
    c = re.sub(r"\s*//:.*$", "", c).strip()
    return f"{unit}::{f['fn']}::{f['msg']}::{c[:160]}"


def match_known(known, prop, unit, f):
    for k in known.get("findings", []):
        if k.get("property") != prop:
            continue
        if k.get("unit") and k["unit"] != unit:
            continue
        if k.get("function") and k["function"] != f["fn"]:
            continue
        hay = (f.get("clause") or "") + " || " + (f.get("failed_requires") or "") + " || " + (f.get("msg") or "")
        if k.get("clause_contains") and re.sub(r"\s+", "", k["clause_contains"]) not in re.sub(r"\s+", "", hay):
            continue
        return k
    return None


def run_units(units, rlimit=30, seed=None, workers=4):
    out = {}
    with concurrent.futures.ThreadPoolExecutor(max_workers=workers) as ex:
        futs = {ex.submit(_safe_verify, u, rlimit, seed): u for u in units}
        for fu in concurrent.futures.as_completed(futs):
            out[futs[fu]] = fu.result()
    return out


def _safe_verify(u, rlimit, seed):
    try:
        R, A = hqcheck.verify_unit(u, rlimit=rlimit, seed=seed)
        return ("ok", R, A)
    except UnitError as e:
        return ("uniterror", str(e), None)
    except Exception as e:  # pragma: no cover
        return ("uniterror", f"internal error: {e!r}", None)


def main(argv):
    ap = argparse.ArgumentParser()
    ap.add_argument("prop")
    ap.add_argument("--tier", default=os.environ.get("VERIF_TIER", "quick"), choices=["quick", "thorough"])
    ap.add_argument("--replay", default=None)
    args = ap.parse_args(argv)
    prop = args.prop
    seed = int(os.environ.get("VERIF_SEED", "0") or 0)
    t0 = time.time()
    cfg = hqcheck.load_config()
    if prop not in cfg["properties"]:
        print(f"property {prop} is not claimed (see MANIFEST.json not_applicable)")
        return 2
    pc = cfg["properties"][prop]
    known = hqcheck.load_known()
    units = pc["units"]
    if args.replay:
        print(open(args.replay).read())
        print("(Verus gives no counterexample; the replay file names the failed obligation and carries the verifier output. "
              "Re-run: ./check %s --tier quick)" % prop)
        return 0

    results = run_units(units, seed=(seed or None))
    violations = []
    known_hits = []
    undecided = []
    fn_rows = []
    total_obl = 0
    discharged = 0
    trusted = set()
    applied_rules = {}
    panic_sites = []
    samples = []
    smt_ms = 0
    cmds = []
    verus_wall = 0.0

    for u in units:
        st, R, A = results[u]
        if st != "ok":
            undecided.append(f"{u}: {R}")
            continue
        cmds.append(R.cmd)
        verus_wall += R.wall
        smt_ms += R.smt_ms
        unit_props = []
        try:
            unit_props = hqv.parse_unit(hqcheck.unit_path(u))["meta"]["props"]
        except Exception:
            pass
        bpath = os.path.join(VERIF, "baseline", u + ".json")
        if not os.path.exists(bpath):
            undecided.append(f"{u}: no baseline")
            continue
        base = json.load(open(bpath))
        if R.status != "ok":
            undecided.append(f"{u}: {R.reason[:800]}")
        for (k, n, _) in R.trusted:
            trusted.add(f"{k}: {n}")
        for ap_ in R.applied:
            applied_rules[ap_["rule"]] = applied_rules.get(ap_["rule"], 0) + 1
        # functions of this unit that serve this property
        my_fns = [n for n, info in R.fn_info.items() if prop in (info.get("props") or unit_props)]
        missing = [f for f in base["functions"] if f not in R.fn_info]
        if missing:
            undecided.append(f"{u}: LOST-ANCHOR functions missing from extraction: {missing}")
        # candidate failures
        cand = [f for f in R.failures if relevant(prop, f, unit_props)]
        # stability: a candidate must reproduce on two more seeds, one of them with 4x rlimit
        stable = cand
        if cand:
            for (sd, rl) in ((seed + 1, 30), (seed + 2, 120)):
                st2, R2, _ = _safe_verify(u, rl, sd)
                if st2 != "ok":
                    stable = []
                    undecided.append(f"{u}: re-run failed: {R2}")
                    break
                ids2 = {obligation_id(u, f) for f in R2.failures}
                flaky = [f for f in stable if obligation_id(u, f) not in ids2]
                for f in flaky:
                    undecided.append(f"{u}: flaky obligation (seed {sd}): {obligation_id(u, f)}")
                stable = [f for f in stable if obligation_id(u, f) in ids2]
        failing_fns = set()
        for f in stable:
            oid = obligation_id(u, f)
            failing_fns.add(f["fn"])
            k = match_known(known, prop, u, f)
            if k:
                known_hits.append((k, oid))
                continue
            if f["fn"] not in base["functions"] and f["fn"] not in base.get("known_failing_functions", []):
                undecided.append(f"{u}: failing obligation in a function that is not in the baseline: {oid}")
                continue
            violations.append((u, f, oid))
        # obligations accounting (sites, counted from the assembled text)
        for n in my_fns:
            ob = R.obligations.get(n, {"total": 1})
            total_obl += ob["total"]
            bad_here = [f for f in R.failures if f["fn"] == n]
            und_here = [x for x in R.undecided if x.get("fn") == n]
            ok = not bad_here and not und_here and R.status == "ok"
            if ok:
                discharged += ob["total"]
            else:
                discharged += max(0, ob["total"] - len(bad_here) - len(und_here))
            info = R.fn_info[n]
            fn_rows.append({"function": n, "unit": u, "source": f"{info['file']}:{info['line']}", "backend": "verus/z3",
                            "obligation_sites": ob, "verified": ok, "smt_ms": round(R.fn_times.get(n.replace("::", "::"), 0), 1)})
        for ps in R.panic_sites:
            if ps["fn"] in my_fns:
                panic_sites.append(ps)
        # a few sample obligations written out
        if A is not None and len(samples) < 6:
            lines = A.text.split("\n")
            for (s0, e0, n, info) in A.fn_ranges:
                if n in my_fns and len(samples) < 6:
                    seg = lines[s0 - 1 : min(e0, s0 + 14)]
                    ens = [l.strip() for l in seg if l.strip() and not l.strip().startswith("//")][:6]
                    samples.append({"unit": u, "function": n, "source": f"{info['file']}:{info['line']}", "contract_head": ens})

    # Kani kernels (complete, loop-free) — optional per property
    kani_rows = []
    if pc.get("kani"):
        import hqkani
        krows, kviol, kund = hqkani.run(prop, pc["kani"], tier=args.tier)
        kani_rows = krows
        for kv in kviol:
            violations.append(("kani", kv, kv["oid"]))
        undecided += kund
        for kr in krows:
            if kr["kind"].startswith("bounded"):
                continue  # bounded stand-ins are reported under coverage.bounded, never counted as proved
            total_obl += kr.get("checks", 1)
            if kr["status"] == "SUCCESS":
                discharged += kr.get("checks", 1)

    wall = time.time() - t0
    os.makedirs(os.path.join(VERIF, "evidence"), exist_ok=True)
    os.makedirs(os.path.join(VERIF, "replay"), exist_ok=True)
    rc = 0
    vio_lines = []
    seen_rp = set()
    for (u, f, oid) in violations:
        safe = re.sub(r"[^A-Za-z0-9_.-]+", "_", f"{prop}-{u}-{f.get('fn')}")[:120]
        rp = os.path.join(VERIF, "replay", safe + ".txt")
        with open(rp, "a" if rp in seen_rp else "w") as fh:
            seen_rp.add(rp)
            fh.write(f"property: {prop}\nfailed obligation: {oid}\nunit: {u}\nfunction: {f.get('fn')}\n")
            fi = f.get("fn_info") or {}
            fh.write(f"real source: {REPO}/{fi.get('file')}:{fi.get('line')}-{fi.get('end_line')}\n")
            fh.write(f"verifier message: {f.get('msg')}\nclause: {f.get('clause')}\nfailed requires: {f.get('failed_requires')}\n")
            fh.write("counterexample: " + (f.get("counterexample") or "none (Verus produces no models) — no-failing-input-found") + "\n")
            fh.write("\n---- verifier output ----\n" + (f.get("rendered") or "") + "\n")
        tail = "" if f.get("counterexample") else " no-failing-input-found"
        vio_lines.append(f"VIOLATION property={prop} replay={rp} obligation={oid!r}{tail}")
        rc = 1
    for (k, oid) in known_hits:
        print(f"KNOWN-FINDING: property={prop} {k.get('what_fails')} [{oid}]")
    for l in vio_lines:
        print(l)
    if undecided and rc == 0:
        rc = 2
    for x in undecided:
        print("UNDECIDED:", x[:1500])

    ev = {
        "property_id": prop,
        "tier": args.tier,
        "seed": seed,
        "level": "proof",
        "coverage": {
            "obligations": total_obl,
            "discharged": discharged,
            "checker_cmd": "; ".join(cmds[:3]) + (" ; ..." if len(cmds) > 3 else ""),
            "trusted_base": sorted(trusted) + pc.get("trusted_extra", []),
            "units": units,
            "functions_under_contract": fn_rows,
            "kani_harnesses": [k for k in kani_rows if not k["kind"].startswith("bounded")],
            "bounded": [k for k in kani_rows if k["kind"].startswith("bounded")],
            "normalisations_applied": applied_rules,
            "panic_sites_in_scope": len(panic_sites),
            "canary_failed_as_expected": all(results[u][0] == "ok" and results[u][1].canary_failed for u in units),
            "known_findings_hit": [k.get("id") for (k, _) in known_hits],
            "undecided": undecided[:20],
            "samples": samples,
            "solver_time_ms": smt_ms,
            "verus_wall_s": round(verus_wall, 2),
            "obligation_counting_rule": "sites counted from the assembled Verus text per function: ensures clauses + 2x loop-invariant clauses + panic sites (assert!/unreachable!/unwrap/expect/index) in obligation mode + proof asserts + arithmetic sites; Verus discharges each as one or more SMT queries",
        },
        "assumptions": pc.get("assumptions", []),
        "wall_s": round(wall, 2),
        "violations": len(violations),
    }
    with open(os.path.join(VERIF, "evidence", prop + ".json"), "w") as fh:
        json.dump(ev, fh, indent=1)
    print(f"{prop}: tier={args.tier} units={len(units)} functions={len(fn_rows)} obligations={total_obl} discharged={discharged} "
          f"violations={len(violations)} known={len(known_hits)} undecided={len(undecided)} wall={wall:.1f}s -> exit {rc}")
    return rc

#!/usr/bin/env python3
"""Kani units: real functions extracted mechanically (same extractor, plain-Rust emission) into a scratch crate
together with hand-written environment stubs and harnesses. Loop-free full-domain harnesses are complete proofs;
harnesses with #[kani::unwind] over bounded inputs are *bounded stand-ins* and are labelled so."""
import json
import os
import re
import shutil
import subprocess
import time

import hqv
from hqv import VERIF, REPO, UnitError


def kunit_path(name):
    return os.path.join(VERIF, "kani", name + ".kni")


def clean_markers(body):
    # remove loop markers and iterator wrappers
    body = re.sub(r"__hq_loop!\(\d+\);", "", body)
    while True:
        m = re.search(r"__hq_iter!\(\d+,", body)
        if not m:
            break
        open_idx = m.start() + len("__hq_iter!")
        close = hqv.find_balanced(body, open_idx)
        inner = body[open_idx + 1 : close].split(",", 1)[1].strip()
        body = body[: m.start()] + inner + body[close + 1 :]
    return body.replace("__hq_assert!(", "assert!(").replace("__hq_unreachable!()", "unreachable!()")


def assemble_plain(unit, workdir):
    meta = unit["meta"]
    for (f, txt) in meta.get("expects", []):
        try:
            src = open(os.path.join(REPO, f)).read()
        except OSError:
            raise UnitError(f"LOST-ANCHOR expected file {f} missing")
        if re.sub(r"\s+", "", txt) not in re.sub(r"\s+", "", src):
            raise UnitError(f"LOST-ANCHOR {f}: expected text not found: {txt!r}")
    extracts = [s[1] for s in unit["segments"] if s[0] == "extract"]
    reqs = [hqv.build_request(ex, meta) for ex in extracts]
    items = hqv.run_extractor(reqs, workdir)
    errs = [it["error"] for it in items if it.get("error")]
    if errs:
        raise UnitError("; ".join(errs))
    out = ["// GENERATED (plain Rust for Kani) from %s and %s" % (os.path.relpath(unit["path"], VERIF), REPO),
           "#![allow(unused, dead_code, non_snake_case, unused_mut, unused_parens, unreachable_code)]"]
    it = iter(zip(extracts, items))
    fns = []
    applied = []
    for kind, seg in unit["segments"]:
        if kind == "text":
            out.append(seg)
            continue
        ex, item = next(it)
        src = f"{item['file']}:{item.get('line')}"
        if ex["kind"] in ("struct", "enum", "const", "type"):
            out.append(f"// ---- extracted {ex['kind']} {ex['path']} from {src}")
            der = ex["opts"].get("derive")
            if der:
                out.append("#[derive(%s)]" % der)
            txt = item["text"]
            if item.get("impl_header"):
                txt = item["impl_header"] + " {\n" + txt + "\n}"
            out.append(txt)
            continue
        if ex["kind"] in ("sig", "trait"):
            shape = item.get("shape") or {}
            for k in ("arity", "receiver"):
                if k in ex["opts"] and str(shape.get(k)) != ex["opts"][k].replace("~", " "):
                    raise UnitError(f"LOST-ANCHOR {ex['path']}: signature shape changed ({k}: {shape.get(k)!r})")
            continue
        sig = item["sig"]
        if item["ret"]:
            sig += " -> " + item["ret"]
        if item["shape"].get("where"):
            sig += "\n    " + item["shape"]["where"]
        body = clean_markers(item["body"])
        hdr = item.get("impl_header")
        out.append(f"// ---- extracted fn {ex['path']} from {src}")
        if item.get("hoisted"):
            out.append("#[derive(Clone, Copy, Debug)]\n" + item["hoisted"])
        if hdr:
            out.append(hdr + " {")
        out.append(sig)
        out.append(body)
        if hdr:
            out.append("}")
        fns.append({"function": ex["path"], "source": src})
        for ap in item.get("applied") or []:
            applied.append({"fn": ex["path"], **ap})
    out.append("fn main() {}")
    return "\n".join(out) + "\n", fns, applied


def harnesses_of(text):
    hs = []
    for m in re.finditer(r"#\[kani::proof\]\s*((?:#\[[^\]]*\]\s*)*)fn\s+(\w+)", text):
        attrs = m.group(1)
        um = re.search(r"kani::unwind\((\d+)\)", attrs)
        hs.append({"name": m.group(2), "unwind": int(um.group(1)) if um else None})
    return hs


def run_kani(crate, harness, timeout, extra=None):
    cmd = ["cargo", "kani", "--harness", harness] + (extra or [])
    env = dict(os.environ, CARGO_NET_OFFLINE="true")
    t0 = time.time()
    try:
        p = subprocess.run(cmd, cwd=crate, capture_output=True, text=True, timeout=timeout, env=env)
        out = p.stdout + "\n" + p.stderr
        to = False
    except subprocess.TimeoutExpired as e:
        out = (e.stdout or b"").decode(errors="replace") if isinstance(e.stdout, bytes) else (e.stdout or "")
        to = True
    return out, to, time.time() - t0


def parse_kani(out):
    status = "UNKNOWN"
    if "VERIFICATION:- SUCCESSFUL" in out:
        status = "SUCCESS"
    elif "VERIFICATION:- FAILED" in out:
        status = "FAILURE"
    checks = len(re.findall(r"^Check \d+:", out, flags=re.M))
    failed = []
    for m in re.finditer(r"^Check \d+: (\S+)\n\s+- Status: FAILURE\n\s+- Description: \"(.*)\"\n\s+- Location: (.*)$", out, flags=re.M):
        failed.append({"check": m.group(1), "description": m.group(2), "location": m.group(3)})
    unwind_fail = any("unwinding assertion" in f["description"] for f in failed)
    return status, checks, failed, unwind_fail


def run(prop, kunits, tier="quick"):
    """returns (rows, violations, undecided)"""
    rows, violations, undecided = [], [], []
    for name in kunits:
        work = hqv.scratch_dir()
        try:
            try:
                unit = hqv.parse_unit(kunit_path(name))
                text, fns, applied = assemble_plain(unit, work)
            except UnitError as e:
                undecided.append(f"kani/{name}: {e}")
                continue
            crate = os.path.join(work, "k_" + name)
            os.makedirs(os.path.join(crate, "src"))
            with open(os.path.join(crate, "Cargo.toml"), "w") as f:
                f.write('[package]\nname = "k_%s"\nversion = "0.1.0"\nedition = "2024"\n\n[workspace]\n\n[lints.rust]\nunexpected_cfgs = { level = "allow" }\n' % name)
            with open(os.path.join(crate, "src", "main.rs"), "w") as f:
                f.write(text)
            keep = os.path.join(VERIF, "build")
            os.makedirs(keep, exist_ok=True)
            shutil.copy(os.path.join(crate, "src", "main.rs"), os.path.join(keep, "kani_" + name + ".rs"))
            hs = harnesses_of(text)
            want = unit["meta"].get("opts", {})
            timeout = int(want.get("timeout", "600"))
            for h in hs:
                tags = re.search(r"//:\s*([C0-9 ,]+)\s*\n\s*#\[kani::proof\]\s*(?:#\[[^\]]*\]\s*)*fn\s+%s\b" % h["name"], text)
                hprops = re.split(r"[ ,]+", tags.group(1).strip()) if tags else unit["meta"]["props"]
                if prop not in hprops:
                    continue
                out, to, wall = run_kani(crate, h["name"], timeout)
                status, checks, failed, unwind_fail = parse_kani(out)
                row = {"unit": name, "harness": h["name"], "status": status, "checks": max(checks, 1), "wall_s": round(wall, 1),
                       "kind": ("bounded(unwind=%d)" % h["unwind"]) if h["unwind"] else "complete (loop-free, full symbolic domain)",
                       "functions": fns, "backend": "kani 0.68 / cbmc 6.11"}
                rows.append(row)
                if to or status == "UNKNOWN":
                    undecided.append(f"kani/{name}::{h['name']}: timeout or no verdict ({wall:.0f}s): {out[-600:]}")
                    continue
                if status == "FAILURE":
                    if unwind_fail and all("unwinding assertion" in f["description"] for f in failed):
                        undecided.append(f"kani/{name}::{h['name']}: unwinding bound too small")
                        continue
                    # counterexample: concrete playback, then replay natively on the extracted real function
                    cex, replay_out = playback(crate, h["name"], timeout)
                    desc = "; ".join(f"{f['description']} @ {f['location']}" for f in failed if "unwinding" not in f["description"])[:600]
                    violations.append({"fn": f"{name}::{h['name']}", "oid": f"kani::{name}::{h['name']}::{desc}", "msg": "Kani harness FAILURE",
                                       "clause": desc, "failed_requires": None, "fn_info": {"file": fns[0]["source"].split(":")[0] if fns else None, "line": None, "end_line": None},
                                       "rendered": out[-6000:], "counterexample": cex and (cex + "\n---- native replay of the extracted real function on this input ----\n" + replay_out)})
        finally:
            shutil.rmtree(work, ignore_errors=True)
    return rows, violations, undecided


def playback(crate, harness, timeout):
    out, to, _ = run_kani(crate, harness, min(timeout, 900), extra=["-Z", "concrete-playback", "--concrete-playback=print"])
    m = re.search(r"```\s*\n(#\[test\].*?)```", out, flags=re.S)
    if not m:
        m = re.search(r"(#\[test\]\s*fn kani_concrete_playback.*?\n}\n)", out, flags=re.S)
    if not m:
        return None, ""
    test = m.group(1)
    main = os.path.join(crate, "src", "main.rs")
    with open(main, "a") as f:
        f.write("\n#[cfg(test)]\nmod hq_playback {\n    use super::*;\n" + test + "\n}\n")
    # native run needs the kani crate for kani::concrete_playback_run: use `cargo kani playback`
    env = dict(os.environ, CARGO_NET_OFFLINE="true")
    try:
        p = subprocess.run(["cargo", "kani", "playback", "-Z", "concrete-playback", "--", "kani_concrete_playback"], cwd=crate,
                           capture_output=True, text=True, timeout=600, env=env)
        ro = (p.stdout + p.stderr)[-3000:]
    except Exception as e:  # pragma: no cover
        ro = f"(native replay failed to run: {e!r})"
    return test, ro

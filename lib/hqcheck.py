#!/usr/bin/env python3
"""Top-level check driver: ./check <Cnn> --tier quick|thorough | ./check unit <name> | ./check rebaseline <unit>.."""
import argparse
import concurrent.futures
import glob
import json
import os
import re
import shutil
import subprocess
import sys
import time

import hqv
from hqv import VERIF, REPO, UnitError

CONFIG = os.path.join(VERIF, "props.json")
KNOWN = os.path.join(VERIF, "known_findings.json")


def load_config():
    return json.load(open(CONFIG))


def load_known():
    if not os.path.exists(KNOWN):
        return {"findings": [], "fixed": []}
    return json.load(open(KNOWN))


def unit_path(name):
    return os.path.join(VERIF, "units", name + ".vrs")


class UnitResult:
    def __init__(self, name):
        self.name = name
        self.status = "ok"  # ok | undecided
        self.reason = ""
        self.failures = []  # semantic failures: dict(fn, msg, clause, failed_requires, props, line, file, src_line, rendered)
        self.undecided = []  # resource/frontend problems
        self.verified_fns = []
        self.fn_times = {}
        self.obligations = {}
        self.trusted = []
        self.applied = []
        self.panic_sites = []
        self.canary_failed = False
        self.wall = 0.0
        self.cmd = ""
        self.fn_info = {}
        self.smt_ms = 0
        self.text_sha = ""


def analyse(name, A, gen, vr, unit_props):
    R = UnitResult(name)
    R.wall = vr["wall"]
    R.cmd = vr["cmd"]
    R.trusted = hqv.scan_trusted(A.text)
    R.applied = A.applied
    R.panic_sites = A.panic_sites
    R.obligations = hqv.count_obligations(A)
    R.fn_info = {n: info for (_, _, n, info) in A.fn_ranges}
    # several slices of one real function share its name: the loop counts / closure counts of ALL of them (the loop-structure and
    # residual-closure policies compare a failing slice with these, not with whichever slice came last)
    R.fn_loops_all, R.fn_rc_max = {}, {}
    for (_, _, n, info) in A.fn_ranges:
        R.fn_loops_all.setdefault(n, set()).add(info.get("n_loops", 0))
        R.fn_rc_max[n] = max(R.fn_rc_max.get(n, 0), info.get("residual_closures", 0))
    # property tags that occur on clauses of a function (a function serves a property through its `props` or through a tagged clause)
    _lines = A.text.split("\n")
    R.fn_tags = {}
    for (st, en, n, _info) in A.fn_ranges:
        tg = set()
        for l in _lines[st - 1:en]:
            if "//:" in l:
                tg |= set(hqv.tags_of(l) or [])
        R.fn_tags[n] = sorted(tg)
    if vr["timeout"]:
        R.status = "undecided"
        R.reason = "verus timeout"
        return R
    res = vr["results"]
    for d in vr["diags"]:
        c = hqv.classify(d)
        if c == "note":
            continue
        loc = hqv.locate(d, A, gen)
        rendered = d.get("rendered", "")
        if "__hq_canary" in rendered or (loc["clause"] and "__hq_canary" in loc["clause"]):
            R.canary_failed = True
            continue
        # canary: its postcondition `false` is on the line of `proof fn __hq_canary`
        if d.get("message") == "postcondition not satisfied":
            prim = [s for s in d.get("spans", []) if s.get("is_primary")]
            if prim and any("__hq_canary" in t.get("text", "") for t in prim[0].get("text", [])):
                R.canary_failed = True
                continue
        entry = {"msg": d.get("message"), "class": c, **loc, "rendered": rendered[:3000]}
        if c == "semantic":
            if loc["fn"] is None:
                # a failing lemma / spec in contract text: cannot be blamed on the code => undecided
                R.undecided.append(entry)
            else:
                R.failures.append(entry)
        else:
            R.undecided.append(entry)
    if res is None:
        R.status = "undecided"
        R.reason = "no verus result json: " + vr["raw"][-1500:]
        return R
    vres = res.get("verification-results", {})
    if vres.get("encountered-vir-error") or (not vres.get("success") and not R.failures and not R.canary_failed and not R.undecided):
        R.status = "undecided"
        R.reason = "verus front-end error: " + vr["raw"][-1500:]
    # per-function results
    try:
        for mod in res["times-ms"]["smt"]["smt-run-module-times"]:
            for fb in mod.get("function-breakdown", []):
                fn = fb["function"].split("::", 1)[-1]
                R.fn_times[fn] = R.fn_times.get(fn, 0) + fb.get("time-micros", 0) / 1000.0
        R.smt_ms = res["times-ms"]["smt"]["total"]
    except Exception:
        pass
    failing = {f["fn"] for f in R.failures}
    und = {u["fn"] for u in R.undecided if u.get("fn")}
    R.verified_fns = [n for (_, _, n, _) in A.fn_ranges if n not in failing and n not in und]
    if R.undecided and R.status == "ok":
        R.status = "undecided"
        R.reason = "; ".join(f"{u['msg']} [{u.get('fn')}]" for u in R.undecided[:5])
    if not R.canary_failed and R.status == "ok":
        R.status = "undecided"
        R.reason = "VACUOUS: canary `ensures false` was accepted (inconsistent assumptions)"
    return R


def verify_unit(name, keep=False, rlimit=30, seed=None, twins=False):
    work = hqv.scratch_dir()
    try:
        unit = hqv.parse_unit(unit_path(name))
        A = hqv.assemble(unit, work)
        gen = os.path.join(work, name + ".rs")
        with open(gen, "w") as f:
            f.write(A.text)
        vr = hqv.run_verus(gen, rlimit=rlimit, seed=seed)
        R = analyse(name, A, gen, vr, unit["meta"]["props"])
        R.text_sha = __import__("hashlib").sha256(A.text.encode()).hexdigest()[:16]
        if keep:
            dst = os.path.join(VERIF, "build")
            os.makedirs(dst, exist_ok=True)
            shutil.copy(gen, os.path.join(dst, name + ".rs"))
        return R, A
    finally:
        shutil.rmtree(work, ignore_errors=True)


def fmt_failure(f):
    s = f"  [{f['class']}] {f['msg']}  fn={f['fn']}"
    if f.get("clause"):
        s += f"\n      clause: {f['clause']}"
    if f.get("failed_requires"):
        s += f"\n      failed requires: {f['failed_requires']}"
    return s


def cmd_unit(args):
    try:
        R, A = verify_unit(args.name, keep=True, rlimit=args.rlimit, seed=args.seed)
    except UnitError as e:
        print("UNDECIDED (unit error):", e)
        return 2
    if getattr(args, "json", False):
        print("HQJSON " + json.dumps({"unit": R.name, "status": R.status, "reason": R.reason[:600], "canary_failed": R.canary_failed,
                                      "verified_fns": len(R.verified_fns), "wall": round(R.wall, 1), "fns": sorted(R.fn_info.keys()),
                                      "failures": [{"fn": f["fn"], "msg": f["msg"], "clause": (f.get("clause") or "")[:200], "clause_tags": f.get("clause_tags") or [], "nl": (f.get("fn_info") or {}).get("n_loops", 0), "rc": (f.get("fn_info") or {}).get("residual_closures", 0),
                                                    "failed_requires": (f.get("failed_requires") or "")[:200]} for f in R.failures],
                                      "undecided": [{"fn": f.get("fn"), "msg": f["msg"][:200]} for f in R.undecided]}))
        return 0 if (R.status == "ok" and not R.failures and not getattr(A, "lost", None)) else 1
    print(f"unit {R.name}: status={R.status} verified_fns={len(R.verified_fns)} failures={len(R.failures)} "
          f"undecided={len(R.undecided)} canary_failed={R.canary_failed} wall={R.wall:.1f}s")
    if R.reason:
        print("reason:", R.reason[:3000])
    if getattr(A, "lost", None):
        print("LOST-ANCHOR (contracted functions no longer found, left out):", sorted(set(A.lost)))
    for f in R.failures:
        print(fmt_failure(f))
        if args.verbose:
            print(f["rendered"])
    for f in R.undecided:
        print(fmt_failure(f))
        if args.verbose or f["class"] == "frontend":
            print(f["rendered"])
    if args.verbose:
        print("fn times (ms):", json.dumps(R.fn_times, indent=1))
    return 0 if (R.status == "ok" and not R.failures and not getattr(A, "lost", None)) else 1


def cmd_rebaseline(args):
    rc = 0
    for name in args.names:
        try:
            R, A = verify_unit(name, rlimit=args.rlimit)
        except UnitError as e:
            print(f"{name}: UNDECIDED {e}")
            rc = 2
            continue
        kn = load_known()
        known_fns = {k["function"] for k in kn["findings"] if k.get("unit") == name}
        bad = [f for f in R.failures if f["fn"] not in known_fns]
        if R.status != "ok" or bad:
            print(f"{name}: NOT rebaselined: status={R.status} {R.reason[:500]} failures={[ (f['fn'], f['msg']) for f in bad]}")
            rc = 1
            continue
        base = {
            "unit": name,
            "functions": sorted(R.verified_fns),
            "known_failing_functions": sorted({f["fn"] for f in R.failures}),
            "residual_closures": {n: i.get("residual_closures", 0) for n, i in sorted(R.fn_info.items()) if i.get("residual_closures", 0)},
            "loops": {n: i.get("n_loops", 0) for n, i in sorted(R.fn_info.items()) if i.get("n_loops", 0)},
            "loops_all": {n: sorted(v) for n, v in sorted(R.fn_loops_all.items()) if v != {0}},
            "residual_closures_max": {n: v for n, v in sorted(R.fn_rc_max.items()) if v},
            "obligation_sites": {k: v["total"] for k, v in sorted(R.obligations.items())},
            "trusted_items": sorted({f"{k}:{n}" for (k, n, _) in R.trusted}),
        }
        with open(os.path.join(VERIF, "baseline", name + ".json"), "w") as f:
            json.dump(base, f, indent=1, sort_keys=True)
        print(f"{name}: baseline written ({len(base['functions'])} functions, {sum(base['obligation_sites'].values())} obligation sites)")
    return rc


def main(argv):
    ap = argparse.ArgumentParser()
    sub = ap.add_subparsers(dest="cmd")
    u = sub.add_parser("unit")
    u.add_argument("name")
    u.add_argument("-v", "--verbose", action="store_true")
    u.add_argument("--rlimit", type=float, default=30)
    u.add_argument("--seed", type=int, default=None)
    u.add_argument("--json", action="store_true")
    r = sub.add_parser("rebaseline")
    r.add_argument("names", nargs="+")
    r.add_argument("--rlimit", type=float, default=30)
    if argv and re.match(r"^C\d+$", argv[0]):
        import hqprop
        return hqprop.main(argv)
    args = ap.parse_args(argv)
    if args.cmd == "unit":
        return cmd_unit(args)
    if args.cmd == "rebaseline":
        return cmd_rebaseline(args)
    ap.print_help()
    return 2

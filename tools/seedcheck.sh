#!/bin/bash
# tools/seedcheck.sh <patch.diff> <unit-or-property> : run a unit / property check against a scratch copy of /repo with the patch applied
PATCH=$1; WHAT=$2
R=/var/tmp/mut/seedrepo.$$; rm -rf $R; mkdir -p $R; cp -r /repo/crates $R/; cp /repo/Cargo.toml /repo/Cargo.lock $R/ 2>/dev/null
(cd $R && patch -p1 -s < $PATCH) || { echo "PATCH FAILED"; rm -rf $R; exit 3; }
cd /verif
if [[ $WHAT =~ ^C[0-9]+$ ]]; then HQ_REPO=$R ./check $WHAT --tier quick; else HQ_REPO=$R ./check unit $WHAT; fi
rc=$?
rm -rf $R
exit $rc

#!/bin/bash
# tools/confirm_seed.sh <Cnn> : confirm a seeded change in its scratch worktree /tmp/wt_<Cnn> using /tmp/seed_<Cnn>/{patch,demo}.diff
# Writes /tmp/seed_<Cnn>/confirm.log ; prints a one-line verdict.
P=$1; WT=/tmp/wt_$P; SD=/tmp/seed_$P; LOG=$SD/confirm.log
cd $WT || exit 9
export CARGO_NET_OFFLINE=true
git checkout -q -- . ; git clean -qfd -e target
DEMO=$(python3 -c "import json;print(json.load(open('$SD/meta.json'))['demo_test'].split()[0])")
CRATE=tako; echo "$DEMO" | grep -q "^hyperqueue\|server::\|client::" && CRATE=hyperqueue
grep -q "crates/hyperqueue" $SD/demo.diff && CRATE=hyperqueue
SHORT=$(echo "$DEMO" | sed 's/^tako:://; s/^hyperqueue:://')
{
echo "== demo only (expect pass): $SHORT in $CRATE"
git apply $SD/demo.diff || echo "APPLY-DEMO-FAILED"
cargo test -p $CRATE --offline --lib -- "$SHORT" 2>&1 | tail -5
echo "== patch + demo (expect fail)"
git apply $SD/patch.diff || echo "APPLY-PATCH-FAILED"
cargo test -p $CRATE --offline --lib -- "$SHORT" 2>&1 | tail -5
echo "== patch only: existing tests"
git apply -R $SD/demo.diff
cargo test --workspace --no-fail-fast --offline 2>&1 | grep -E "^test result|FAILED|failed" | sort | uniq -c | sort -rn | head -60
} > $LOG 2>&1
git checkout -q -- . ; git clean -qfd -e target
A=$(grep -A6 "demo only" $LOG | grep -c "test result: ok. 1 passed")
B=$(grep -A6 "patch + demo" $LOG | grep -c "test result: FAILED")
echo "$P demo_passes_without=$A demo_fails_with=$B (see $LOG)"

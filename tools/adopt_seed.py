#!/usr/bin/env python3
"""tools/adopt_seed.py <Cnn> [suffix]: copy a confirmed seeded change from /tmp/seed_<Cnn> into /verif/seeded/<Cnn>-<n>/"""
import json, os, shutil, sys, re
pid = sys.argv[1]
sd = f"/tmp/seed_{pid}"
n = 1
while os.path.exists(f"/verif/seeded/{pid}-{n}"):
    n += 1
dst = f"/verif/seeded/{pid}-{n}"
os.makedirs(dst)
shutil.copy(f"{sd}/patch.diff", dst)
shutil.copy(f"{sd}/demo.diff", f"{dst}/demo.diff")
meta = json.load(open(f"{sd}/meta.json"))
log = open(f"{sd}/confirm.log").read()
def sect(name):
    m = re.search(r"== %s.*?\n(.*?)(?=\n== |\Z)" % re.escape(name), log, flags=re.S)
    return (m.group(1).strip()[-600:] if m else "")
meta["confirmed_by_me"] = {
    "worktree": f"/tmp/wt_{pid} (scratch git worktree of /repo, removed afterwards)",
    "ran": ["git apply demo.diff; cargo test -p <crate> --offline --lib -- <demo>   (expect pass)",
            "git apply patch.diff; cargo test -p <crate> --offline --lib -- <demo>   (expect fail)",
            "git apply -R demo.diff; cargo test --workspace --no-fail-fast --offline  (existing tests with the patch)"],
    "demo_only": sect("demo only"),
    "patch_and_demo": sect("patch + demo"),
    "existing_tests_with_patch": [l for l in sect("patch only").split("\n") if "test result" in l],
}
json.dump(meta, open(f"{dst}/meta.json", "w"), indent=1)
print(dst)

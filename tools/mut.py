#!/usr/bin/env python3
"""tools/mut.py <file-rel> <old> <new> <unit> : apply a textual mutation on a scratch copy of /repo/crates and run one unit"""
import os, shutil, subprocess, sys
rel, old, new, unit = sys.argv[1:5]
root = "/var/tmp/mut/repo"
shutil.rmtree(root, ignore_errors=True)
os.makedirs(root)
shutil.copytree("/repo/crates", root + "/crates")
p = os.path.join(root, rel)
s = open(p).read()
if old not in s:
    print("MUTATION ANCHOR NOT FOUND"); sys.exit(3)
s = s.replace(old, new, 1)
open(p, "w").write(s)
env = dict(os.environ, HQ_REPO=root)
r = subprocess.run([os.path.join(os.path.dirname(os.path.dirname(os.path.abspath(__file__))), "check"), "unit", unit], env=env, capture_output=True, text=True)
print(r.stdout[-3000:])
shutil.rmtree(root, ignore_errors=True)

// ===== prelude/idord.rs — `#[derive(PartialOrd, Ord)]` of the id newtypes (define_id_type!): ids compare as their numbers (trusted; N2) =====
impl PartialOrd for JobId {
    #[verifier::external_body]
    fn partial_cmp(&self, other: &Self) -> (r: Option<Ordering>) { self.0.partial_cmp(&other.0) }
}
impl vstd::std_specs::cmp::PartialOrdSpecImpl for JobId {
    open spec fn obeys_partial_cmp_spec() -> bool { true }
    open spec fn partial_cmp_spec(&self, other: &Self) -> Option<Ordering> {
        if self.0 < other.0 { Some(Ordering::Less) } else if self.0 == other.0 { Some(Ordering::Equal) } else { Some(Ordering::Greater) }
    }
}
impl PartialOrd for WorkerId {
    #[verifier::external_body]
    fn partial_cmp(&self, other: &Self) -> (r: Option<Ordering>) { self.0.partial_cmp(&other.0) }
}
impl vstd::std_specs::cmp::PartialOrdSpecImpl for WorkerId {
    open spec fn obeys_partial_cmp_spec() -> bool { true }
    open spec fn partial_cmp_spec(&self, other: &Self) -> Option<Ordering> {
        if self.0 < other.0 { Some(Ordering::Less) } else if self.0 == other.0 { Some(Ordering::Equal) } else { Some(Ordering::Greater) }
    }
}

// ===== prelude/tako_ctb.rs — ASSUMED contract of ComputeTasksBuilder / abstract ComputeTasks message (trusted here; *proved* for the real
// builder in unit ctbuilder, whose postconditions have the same shape over the concrete message) =====

// ---- messages to workers: abstract content of a ComputeTasks message = (task, instance, variant) triples
pub type CtItem = (TaskId, InstanceId, Option<ResourceVariantId>);
#[verifier::external_body]
pub struct ComputeTasksMsg {}
impl ComputeTasksMsg { pub uninterp spec fn items(&self) -> Seq<CtItem>; }
// ComputeTasksBuilder (server/task.rs): groups tasks into ComputeTasks messages (size-driven fragmentation is
// abstracted: any split into consecutive messages). ASSUMED contract: nothing is lost, duplicated or reordered, and
// each item carries the task's *current* instance id and the given variant.
#[verifier::external_body]
pub struct ComputeTasksBuilder {}
//@ extract sig ComputeTasksBuilder::single_task file=crates/tako/src/internal/server/task.rs arity=3
//@ extract sig ComputeTasksBuilder::add_task file=crates/tako/src/internal/server/task.rs arity=4
//@ extract sig ComputeTasksBuilder::into_last_message file=crates/tako/src/internal/server/task.rs arity=1
spec fn ct_item(task: Task, v: Option<ResourceVariantId>) -> CtItem { (task.id, task.instance_id, v) }
impl ComputeTasksBuilder {
    pub uninterp spec fn pending(&self) -> Seq<CtItem>;
    #[verifier::external_body]
    fn default() -> (r: Self) ensures r.pending() == Seq::<CtItem>::empty() { unimplemented!() }
    #[verifier::external_body]
    fn single_task(task: &Task, variant: ResourceVariantId, node_list: Vec<WorkerId>) -> (r: ToWorkerMessage)
        ensures r is ComputeTasks, r->ComputeTasks_0.items() == seq![ct_item(*task, Some(variant))]
    { unimplemented!() }
    #[verifier::external_body]
    fn add_task(&mut self, task: &Task, variant: Option<ResourceVariantId>, node_list: Vec<WorkerId>) -> (r: Option<ToWorkerMessage>)
        // a message is cut after the new task, or (fix 45a48f5) before it: then the collected items go and the new one stays pending alone
        ensures match r {
            Some(m) => m is ComputeTasks && (
                (m->ComputeTasks_0.items() == old(self).pending().push(ct_item(*task, variant)) && final(self).pending() == Seq::<CtItem>::empty())
                || (old(self).pending().len() > 0 && m->ComputeTasks_0.items() == old(self).pending() && final(self).pending() == seq![ct_item(*task, variant)])),
            None => final(self).pending() == old(self).pending().push(ct_item(*task, variant)),
        }
    { unimplemented!() }
    #[verifier::external_body]
    fn into_last_message(self) -> (r: Option<ToWorkerMessage>)
        ensures match r {
            Some(m) => m is ComputeTasks && m->ComputeTasks_0.items() == self.pending() && self.pending().len() > 0,
            None => self.pending().len() == 0,
        }
    { unimplemented!() }
}


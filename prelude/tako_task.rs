// ===== prelude/tako_task.rs — environment of tako::internal::server::task (trusted; N2) =====
use std::rc::Rc;
#[verifier::external_body]
#[derive(Clone, Copy)]
pub struct UserPriority { x: i32 }
#[verifier::external_body]
#[derive(Clone, Copy)]
pub struct Priority { x: u64 }
impl Priority {
    pub uninterp spec fn of_user(u: UserPriority) -> Priority;
    #[verifier::external_body]
    fn from_user_priority(u: UserPriority) -> (r: Priority) ensures r == Priority::of_user(u) { unimplemented!() }
}
#[verifier::external_body]
pub struct TaskBody {}                 // Rc<[u8]>
#[verifier::external_body]
pub struct EntryType {}                // ThinVec<u8> payload
impl Clone for EntryType { #[verifier::external_body] fn clone(&self) -> (r: Self) ensures r == *self { unimplemented!() } }

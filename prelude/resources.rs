// ===== prelude/resources.rs — resource id / IndexVec / derive_more stand-ins (trusted) =====

// define_id_type!(ResourceId, u32)  (tako/src/internal/common/resources/mod.rs)
#[derive(Clone, Copy, PartialEq, Eq, Structural)]
pub struct ResourceId(pub u32);
impl ResourceId {
    fn new(value: u32) -> (r: Self) ensures r.0 == value { Self(value) }
    fn as_num(&self) -> (r: u32) ensures r == self.0 { self.0 }
    fn as_usize(&self) -> (r: usize) ensures r == self.0 as usize { self.0 as usize }
}

// IndexVec<Idx, Value>(Vec<Value>, PhantomData<Idx>)  (tako/src/internal/common/index.rs)
// Index/IndexMut go to Vec::index(index.into()) => out-of-range indexing panics: index_req is the bound.
#[verifier::external_body]
#[verifier::reject_recursive_types(I)]
#[verifier::accept_recursive_types(V)]
pub struct IndexVec<I, V>(Vec<V>, std::marker::PhantomData<I>);

impl<I, V> View for IndexVec<I, V> {
    type V = Seq<V>;
    uninterp spec fn view(&self) -> Seq<V>;
}

impl<V> IndexVec<ResourceId, V> {
    #[verifier::external_body]
    fn get(&self, index: ResourceId) -> (r: Option<&V>)
        ensures r == (if (index.0 as int) < self@.len() { Some(&self@[index.0 as int]) } else { None::<&V> })
    { self.0.get(index.0 as usize) }

    #[verifier::external_body]
    fn len(&self) -> (r: usize)
        ensures r == self@.len()
    { self.0.len() }
}

impl<V> Index<ResourceId> for IndexVec<ResourceId, V> {
    type Output = V;
    #[verifier::external_body]
    fn index(&self, index: ResourceId) -> (r: &V)
        ensures *r == self@[index.0 as int]
    { self.0.index(index.0 as usize) }
}
impl<V> vstd::std_specs::core::IndexSpecImpl<ResourceId> for IndexVec<ResourceId, V> {
    open spec fn index_req(&self, index: &ResourceId) -> bool { (index.0 as int) < self@.len() }
}
impl<V> IndexMut<ResourceId> for IndexVec<ResourceId, V> {
    #[verifier::external_body]
    fn index_mut(&mut self, index: ResourceId) -> (r: &mut V)
        ensures *r == old(self)@[index.0 as int], final(self)@ == old(self)@.update(index.0 as int, *final(r))
    { self.0.index_mut(index.0 as usize) }
}

type ResourceVec<T> = IndexVec<ResourceId, T>;

// N14 (diverge mode) for IndexVec places and reads
impl<V> HqIndex<ResourceId> for IndexVec<ResourceId, V> {
    type Out = V;
    spec fn hq_in(&self, i: ResourceId) -> bool { (i.0 as int) < self@.len() }
    spec fn hq_at(&self, i: ResourceId) -> V { self@[i.0 as int] }
    #[verifier::external_body]
    fn hq_index(&self, i: ResourceId) -> (r: &V) { unimplemented!() }
}
impl<V> IndexVec<ResourceId, V> {
    #[verifier::external_body]
    fn hq_index_mut(&mut self, index: ResourceId) -> (r: &mut V)
        ensures (index.0 as int) < old(self)@.len(), *r == old(self)@[index.0 as int], final(self)@ == old(self)@.update(index.0 as int, *final(r))
    { unimplemented!() }
}

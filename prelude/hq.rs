// ===== prelude/hq.rs — hyperqueue-level environment stand-ins (trusted; N2, N13) =====
// chrono: timestamps are opaque, Copy.
#[verifier::external_body]
#[derive(Clone, Copy)]
pub struct Utc { x: u8 }
#[verifier::external_body]
#[verifier::reject_recursive_types(T)]
pub struct DateTime<T> { x: u64, p: std::marker::PhantomData<T> }
impl<T> Clone for DateTime<T> {
    #[verifier::external_body]
    fn clone(&self) -> (r: Self) ensures r == *self { unimplemented!() }
}
impl<T> Copy for DateTime<T> {}
impl Utc {
    #[verifier::external_body]
    fn now() -> DateTime<Utc> { unimplemented!() }
}

//@ extract struct RunningTaskContext file=crates/hyperqueue/src/worker/start/mod.rs
#[verifier::external_body]
pub struct SerializedTaskContext {}
//@ extract struct JobDescription file=crates/hyperqueue/src/transfer/messages.rs
#[verifier::external_body]
pub struct SubmittedJobDescription {}
#[verifier::external_body]
pub struct DeserializeError {}
impl std::fmt::Debug for DeserializeError {
    #[verifier::external_body]
    fn fmt(&self, f: &mut std::fmt::Formatter<'_>) -> std::fmt::Result { unimplemented!() }
}

// tako::comm::deserialize of a task context sent by a worker. ENV (listed): a context serialized by a
// correctly behaving worker deserializes.
#[verifier::external_body]
fn deserialize(c: &SerializedTaskContext) -> (r: Result<RunningTaskContext, DeserializeError>)
    ensures r is Ok
{ unimplemented!() }

pub type JobTaskCount = u32;


// ---- ghost event log of senders.events (N13): every EventStreamer method the verified code calls
// appends exactly one abstract event. The real methods take &self (interior mutability); the
// stand-ins take &mut self and every `senders: &Senders` parameter becomes `&mut Senders` (N13b).
pub enum Ev {
    JobOpened(JobId),
    JobClosed(JobId),
    JobSubmitted(JobId),
    JobIdle(JobId),
    JobCompleted(JobId),
    JobCancel(JobId),
    TaskStarted(TaskId, InstanceId),
    TaskFinished(TaskId),
    TaskFailed(TaskId),
    TasksCanceled(Seq<TaskId>),
    TasksAborted(Seq<TaskId>),
    WorkerLost(WorkerId),
    Other,
}
#[verifier::external_body]
pub struct EventStreamer {}
#[verifier::external_body]
pub struct ServerRef {}
#[verifier::external_body]
pub struct AutoAllocService {}
pub struct Senders {
    pub server_control: ServerRef,
    pub events: EventStreamer,
    pub autoalloc: AutoAllocService,
}
//@ extract sig EventStreamer::on_job_closed file=crates/hyperqueue/src/server/event/streamer.rs arity=2
//@ extract sig EventStreamer::on_job_idle file=crates/hyperqueue/src/server/event/streamer.rs arity=3
//@ extract sig EventStreamer::on_job_completed file=crates/hyperqueue/src/server/event/streamer.rs arity=3
//@ extract sig EventStreamer::on_job_cancel file=crates/hyperqueue/src/server/event/streamer.rs arity=4
//@ extract sig EventStreamer::on_task_started file=crates/hyperqueue/src/server/event/streamer.rs arity=6
//@ extract sig EventStreamer::on_task_finished file=crates/hyperqueue/src/server/event/streamer.rs arity=3
//@ extract sig EventStreamer::on_task_failed file=crates/hyperqueue/src/server/event/streamer.rs arity=4
//@ extract sig EventStreamer::on_task_canceled file=crates/hyperqueue/src/server/event/streamer.rs arity=3
//@ extract sig EventStreamer::on_task_aborted file=crates/hyperqueue/src/server/event/streamer.rs arity=3
//@ extract sig EventStreamer::on_worker_lost file=crates/hyperqueue/src/server/event/streamer.rs arity=3
impl EventStreamer {
    pub uninterp spec fn log(&self) -> Seq<Ev>;

    #[verifier::external_body]
    fn on_job_closed(&mut self, job_id: JobId)
        ensures final(self).log() == old(self).log().push(Ev::JobClosed(job_id))
    { unimplemented!() }
    #[verifier::external_body]
    fn on_job_idle(&mut self, job_id: JobId, now: DateTime<Utc>)
        ensures final(self).log() == old(self).log().push(Ev::JobIdle(job_id))
    { unimplemented!() }
    #[verifier::external_body]
    fn on_job_completed(&mut self, job_id: JobId, now: DateTime<Utc>)
        ensures final(self).log() == old(self).log().push(Ev::JobCompleted(job_id))
    { unimplemented!() }
    #[verifier::external_body]
    fn on_job_cancel(&mut self, job_id: JobId, cancel_reason: String, now: DateTime<Utc>)
        ensures final(self).log() == old(self).log().push(Ev::JobCancel(job_id))
    { unimplemented!() }
    #[verifier::external_body]
    fn on_task_finished(&mut self, task_id: TaskId, now: DateTime<Utc>)
        ensures final(self).log() == old(self).log().push(Ev::TaskFinished(task_id))
    { unimplemented!() }
    #[verifier::external_body]
    fn on_task_failed(&mut self, task_id: TaskId, error: String, now: DateTime<Utc>)
        ensures final(self).log() == old(self).log().push(Ev::TaskFailed(task_id))
    { unimplemented!() }
    #[verifier::external_body]
    fn on_task_canceled(&mut self, task_ids: Vec<TaskId>, now: DateTime<Utc>)
        ensures final(self).log() == old(self).log().push(Ev::TasksCanceled(task_ids@))
    { unimplemented!() }
    #[verifier::external_body]
    fn on_task_aborted(&mut self, task_ids: Vec<TaskId>, now: DateTime<Utc>)
        ensures final(self).log() == old(self).log().push(Ev::TasksAborted(task_ids@))
    { unimplemented!() }
    #[verifier::external_body]
    fn on_worker_lost(&mut self, id: WorkerId, reason: LostWorkerReason)
        ensures final(self).log() == old(self).log().push(Ev::WorkerLost(id))
    { unimplemented!() }
}


// ===== prelude/base.rs — trusted stand-ins shared by every unit (listed in TRUSTED.md) =====
use std::cmp::Ordering;
use std::ops::{Index, IndexMut};
use vstd::std_specs::iter::IteratorSpec;

// N14 (diverge mode): a panic aborts the handler; partial correctness = nothing to prove after it.
#[verifier::external_body]
fn hq_panic() -> !
{ panic!() }

// N15: error / log message strings are opaque (no property talks about their text)
#[verifier::external_body]
fn hq_format() -> String
{ String::new() }

pub assume_specification<'a, T: Copy> [std::option::Option::<&'a T>::copied] (o: Option<&'a T>) -> (r: Option<T>)
    ensures r == (match o { Some(x) => Some(*x), None => None::<T> });

// N14: `.unwrap()` / `.expect()` in diverge mode: returns the payload or diverges
trait HqUnwrap<T>: Sized {
    spec fn hq_payload(self) -> Option<T>;
    fn hq_unwrap(self) -> (r: T)
        ensures self.hq_payload() == Some(r);
}
impl<T> HqUnwrap<T> for Option<T> {
    spec fn hq_payload(self) -> Option<T> { self }
    #[verifier::external_body]
    fn hq_unwrap(self) -> (r: T) { self.unwrap() }
}
impl<T, E: std::fmt::Debug> HqUnwrap<T> for Result<T, E> {
    spec fn hq_payload(self) -> Option<T> { match self { Ok(v) => Some(v), Err(_) => None } }
    #[verifier::external_body]
    fn hq_unwrap(self) -> (r: T) { self.unwrap() }
}

// std::mem::take: returns the old value and leaves T::default(); what the default is, is stated per type (Vec: empty)
mod hq_take_axioms {
    use super::*;
    pub uninterp spec fn hq_default_left<T>(x: T) -> bool;
    pub broadcast axiom fn axiom_vec_default_left<T>(v: Vec<T>)
        ensures #[trigger] hq_default_left(v) ==> v@.len() == 0;
}
use hq_take_axioms::hq_default_left;
//@ broadcast: hq_take_axioms::axiom_vec_default_left
pub assume_specification<T: Default> [std::mem::take] (dest: &mut T) -> (r: T)
    ensures r == *old(dest), hq_default_left(*final(dest));

// N14 (diverge mode): an index *read* returns the element or diverges (out of range = panic)
trait HqIndex<I> {
    type Out;
    spec fn hq_in(&self, i: I) -> bool;
    spec fn hq_at(&self, i: I) -> Self::Out;
    fn hq_index(&self, i: I) -> (r: &Self::Out)
        ensures self.hq_in(i), *r == self.hq_at(i);
}
impl<T> HqIndex<usize> for Vec<T> {
    type Out = T;
    spec fn hq_in(&self, i: usize) -> bool { (i as int) < self@.len() }
    spec fn hq_at(&self, i: usize) -> T { self@[i as int] }
    #[verifier::external_body]
    fn hq_index(&self, i: usize) -> (r: &T) { unimplemented!() }
}
impl<T> HqIndex<usize> for [T] {
    type Out = T;
    spec fn hq_in(&self, i: usize) -> bool { (i as int) < self@.len() }
    spec fn hq_at(&self, i: usize) -> T { self@[i as int] }
    #[verifier::external_body]
    fn hq_index(&self, i: usize) -> (r: &T) { unimplemented!() }
}

// N14 (diverge mode) for Vec places: `v[i] = x`, `v[i].push(x)`: the element is fetched mutably or the access diverges
trait HqIndexMutVec<T> {
    spec fn hq_seq(&self) -> Seq<T>;
    fn hq_index_mut(&mut self, i: usize) -> (r: &mut T)
        ensures
            (i as int) < old(self).hq_seq().len(), *r == old(self).hq_seq()[i as int],
            final(self).hq_seq() == old(self).hq_seq().update(i as int, *final(r));
}
impl<T> HqIndexMutVec<T> for Vec<T> {
    spec fn hq_seq(&self) -> Seq<T> { self@ }
    #[verifier::external_body]
    fn hq_index_mut(&mut self, i: usize) -> (r: &mut T) { unimplemented!() }
}

// "x occurs among the first n elements of s"
spec fn seq_has<T>(s: Seq<T>, n: int, x: T) -> bool { exists|i: int| 0 <= i < n && #[trigger] s[i] == x }

// <[T]>::contains (assumed: element equality is structural for the id types it is used on)
pub assume_specification<T: PartialEq> [<[T]>::contains] (s: &[T], x: &T) -> (r: bool)
    ensures r == s@.contains(*x);
pub assume_specification<T> [std::mem::replace] (dest: &mut T, src: T) -> (r: T)
    ensures r == *old(dest), *final(dest) == src;

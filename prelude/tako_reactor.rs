// ===== prelude/tako_reactor.rs — environment of tako::internal::server::reactor (trusted; N2, N12, N13) =====

#[verifier::external_body]
pub struct WorkerResourceCounts {}
//@ extract struct NewWorkerMsg file=crates/tako/src/internal/messages/worker.rs
//@ extract struct TaskIdsMsg file=crates/tako/src/internal/messages/worker.rs
//@ extract enum ToWorkerMessage file=crates/tako/src/internal/messages/worker.rs
//@ extract struct TaskRunningMsg file=crates/tako/src/internal/messages/worker.rs
//@ extract struct TaskFailInfo file=crates/tako/src/internal/messages/common.rs
#[verifier::external_body]
pub struct SerializedTaskContext {}

// ---- Comm / EventProcessor (N13): two ghost logs — messages towards workers (+ scheduling requests) and
// callbacks towards the client layer (hyperqueue). Each real trait method appends exactly one entry.
pub enum WEv { To(WorkerId, ToWorkerMessage), Broadcast(ToWorkerMessage), AskScheduling }
pub enum CEv {
    Started(TaskId, InstanceId, Seq<WorkerId>, ResourceVariantId),
    Finished(TaskId),
    Error(TaskId, Seq<TaskId>),
    WorkerNew(WorkerId),
    WorkerLost(WorkerId, Seq<TaskId>, LostWorkerReason),
    Other,
}
//@ extract trait EventProcessor file=crates/tako/src/events.rs methods=on_task_finished/2,on_task_started/6,on_task_error/4,on_worker_new/3,on_worker_lost/4,on_worker_overview/2,on_task_notify/4
//@ extract trait Comm file=crates/tako/src/internal/server/comm.rs methods=send_worker_message/3,broadcast_worker_message/2,ask_for_scheduling/1,client/1
trait EventProcessor {
    spec fn clog(&self) -> Seq<CEv>;
    fn on_task_finished(&mut self, task_id: TaskId)
        ensures final(self).clog() == old(self).clog().push(CEv::Finished(task_id));
    fn on_task_started(&mut self, task_id: TaskId, instance_id: InstanceId, worker_ids: &[WorkerId], rv_id: ResourceVariantId, context: SerializedTaskContext)
        ensures final(self).clog() == old(self).clog().push(CEv::Started(task_id, instance_id, worker_ids@, rv_id));
    // the client layer answers with the ids it wants cancelled on top (max-fails, C14): arbitrary for tako
    fn on_task_error(&mut self, task_id: TaskId, consumers_id: Vec<TaskId>, error_info: TaskFailInfo) -> (r: Vec<TaskId>)
        ensures final(self).clog() == old(self).clog().push(CEv::Error(task_id, consumers_id@));
    fn on_worker_lost(&mut self, worker_id: WorkerId, running_tasks: &[TaskId], reason: LostWorkerReason)
        ensures final(self).clog() == old(self).clog().push(CEv::WorkerLost(worker_id, running_tasks@, reason));
    fn on_worker_new(&mut self, worker_id: WorkerId, configuration: &WorkerConfiguration)
        ensures final(self).clog() == old(self).clog().push(CEv::WorkerNew(worker_id));
}
trait Comm {
    type Client: EventProcessor;
    spec fn wlog(&self) -> Seq<WEv>;
    spec fn clog(&self) -> Seq<CEv>;
    fn send_worker_message(&mut self, worker_id: WorkerId, message: &ToWorkerMessage)
        ensures final(self).wlog() == old(self).wlog().push(WEv::To(worker_id, *message)), final(self).clog() == old(self).clog();
    fn broadcast_worker_message(&mut self, message: &ToWorkerMessage)
        ensures final(self).wlog() == old(self).wlog().push(WEv::Broadcast(*message)), final(self).clog() == old(self).clog();
    fn ask_for_scheduling(&mut self)
        ensures final(self).wlog() == old(self).wlog().push(WEv::AskScheduling), final(self).clog() == old(self).clog();
    fn client(&mut self) -> (c: &mut Self::Client)
        ensures c.clog() == old(self).clog(), final(self).clog() == final(c).clog(), final(self).wlog() == old(self).wlog();
}

//@ pc-twins: get_worker get_worker_mut remove_prefilled move_prefilled_task_to_ready add_ready_task
// ---- WorkerMap (server/workermap.rs): `&self.workers[&id]` / `get_mut(..).expect(..)` — ASSUMED one-line accessors
//@ extract struct WorkerMap file=crates/tako/src/internal/server/workermap.rs
//@ expect file=crates/tako/src/internal/server/workermap.rs text="pub fn get_worker(&self, worker_id: WorkerId) -> &Worker { &self.workers[&worker_id] }"
//@ expect file=crates/tako/src/internal/server/workermap.rs text="pub fn get_worker_mut(&mut self, worker_id: WorkerId) -> &mut Worker { self.workers.get_mut(&worker_id).expect("
impl WorkerMap {
    #[verifier::external_body]
    fn get_worker(&self, worker_id: WorkerId) -> (r: &Worker)
        requires self.workers@.contains_key(worker_id)
        ensures *r == self.workers@[worker_id]
    { unimplemented!() }
    #[verifier::external_body]
    fn get_worker_mut(&mut self, worker_id: WorkerId) -> (r: &mut Worker)
        requires old(self).workers@.contains_key(worker_id)
        ensures *r == old(self).workers@[worker_id], final(self).workers@ == old(self).workers@.insert(worker_id, *final(r))
    { unimplemented!() }
    // diverge-mode variants (N14): return only if the worker exists
    #[verifier::external_body]
    fn get_worker__pc(&self, worker_id: WorkerId) -> (r: &Worker)
        ensures self.workers@.contains_key(worker_id), *r == self.workers@[worker_id]
    { unimplemented!() }
    #[verifier::external_body]
    fn get_worker_mut__pc(&mut self, worker_id: WorkerId) -> (r: &mut Worker)
        ensures old(self).workers@.contains_key(worker_id), *r == old(self).workers@[worker_id], final(self).workers@ == old(self).workers@.insert(worker_id, *final(r))
    { unimplemented!() }
}


// ---- scheduler task queues (scheduler/taskqueue.rs): BTreeMap entry API, outside the Verus subset.
// ASSUMED abstract contracts (per request-id queue: set of ready ids, set of prefilled ids).
#[verifier::external_body]
pub struct TaskQueue {}
#[verifier::external_body]
pub struct TaskQueues {}
//@ extract sig TaskQueues::add_ready_task file=crates/tako/src/internal/scheduler/taskqueue.rs arity=3
//@ extract sig TaskQueues::get_mut file=crates/tako/src/internal/scheduler/taskqueue.rs arity=2
//@ extract sig TaskQueue::remove file=crates/tako/src/internal/scheduler/taskqueue.rs arity=3
//@ extract sig TaskQueue::remove_prefilled file=crates/tako/src/internal/scheduler/taskqueue.rs arity=2
//@ extract sig TaskQueue::move_prefilled_task_to_ready file=crates/tako/src/internal/scheduler/taskqueue.rs arity=2
impl TaskQueue {
    pub uninterp spec fn ready(&self) -> VSet<TaskId>;
    pub uninterp spec fn prefill(&self) -> VSet<TaskId>;
    #[verifier::external_body]
    fn remove(&mut self, task_id: TaskId, priority: Priority)
        ensures final(self).ready() == old(self).ready().remove(task_id), final(self).prefill() == old(self).prefill().remove(task_id)
    { unimplemented!() }
    #[verifier::external_body]
    fn remove_prefilled(&mut self, task_id: TaskId)
        requires old(self).prefill().contains(task_id)
        ensures final(self).prefill() == old(self).prefill().remove(task_id), final(self).ready() == old(self).ready()
    { unimplemented!() }
    #[verifier::external_body]
    fn move_prefilled_task_to_ready(&mut self, task_id: TaskId)
        requires old(self).prefill().contains(task_id)      //: C09 C07
        ensures final(self).prefill() == old(self).prefill().remove(task_id), final(self).ready() == old(self).ready().insert(task_id)
    { unimplemented!() }
    #[verifier::external_body]
    fn remove_prefilled__pc(&mut self, task_id: TaskId)
        ensures old(self).prefill().contains(task_id), final(self).prefill() == old(self).prefill().remove(task_id), final(self).ready() == old(self).ready()
    { unimplemented!() }
    #[verifier::external_body]
    fn move_prefilled_task_to_ready__pc(&mut self, task_id: TaskId)
        ensures old(self).prefill().contains(task_id), final(self).prefill() == old(self).prefill().remove(task_id), final(self).ready() == old(self).ready().insert(task_id)
    { unimplemented!() }
}
impl TaskQueues {
    pub uninterp spec fn n(&self) -> nat;
    pub uninterp spec fn ready_of(&self, rq: ResourceRqId) -> VSet<TaskId>;
    pub uninterp spec fn prefill_of(&self, rq: ResourceRqId) -> VSet<TaskId>;
    #[verifier::external_body]
    fn get_mut(&mut self, resource_rq_id: ResourceRqId) -> (r: &mut TaskQueue)
        requires (resource_rq_id.0 as nat) < old(self).n()
        ensures
            r.ready() == old(self).ready_of(resource_rq_id), r.prefill() == old(self).prefill_of(resource_rq_id),
            final(self).n() == old(self).n(),
            forall|q: ResourceRqId| #[trigger] final(self).ready_of(q) == (if q == resource_rq_id { final(r).ready() } else { old(self).ready_of(q) }),
            forall|q: ResourceRqId| #[trigger] final(self).prefill_of(q) == (if q == resource_rq_id { final(r).prefill() } else { old(self).prefill_of(q) }),
    { unimplemented!() }
    #[verifier::external_body]
    fn get_mut__pc(&mut self, resource_rq_id: ResourceRqId) -> (r: &mut TaskQueue)
        ensures
            (resource_rq_id.0 as nat) < old(self).n(),
            r.ready() == old(self).ready_of(resource_rq_id), r.prefill() == old(self).prefill_of(resource_rq_id),
            final(self).n() == old(self).n(),
            forall|q: ResourceRqId| #[trigger] final(self).ready_of(q) == (if q == resource_rq_id { final(r).ready() } else { old(self).ready_of(q) }),
            forall|q: ResourceRqId| #[trigger] final(self).prefill_of(q) == (if q == resource_rq_id { final(r).prefill() } else { old(self).prefill_of(q) }),
    { unimplemented!() }
    // a new ready task of higher priority disposes lower-priority prefills: their ids go back to the ready
    // queue of their own request and are appended to `retracted` (each once)
    pub uninterp spec fn disposed_by(&self, p: Priority) -> Seq<TaskId>;
    #[verifier::external_body]
    fn add_ready_task(&mut self, task: &Task, retracted: &mut Vec<TaskId>)
        requires (task.resource_rq_id.0 as nat) < old(self).n()
        ensures
            final(self).n() == old(self).n(),
            final(retracted)@ == old(retracted)@ + old(self).disposed_by(Priority::of_user(task.configuration.user_priority)),
            old(self).disposed_by(Priority::of_user(task.configuration.user_priority)).no_duplicates(),
            forall|x: TaskId| old(self).disposed_by(Priority::of_user(task.configuration.user_priority)).contains(x)
                ==> exists|q: ResourceRqId| #[trigger] old(self).prefill_of(q).contains(x),
            forall|q: ResourceRqId| #[trigger] final(self).prefill_of(q)
                == old(self).prefill_of(q).difference(old(self).disposed_by(Priority::of_user(task.configuration.user_priority)).to_set()),
            forall|q: ResourceRqId| #[trigger] final(self).ready_of(q)
                == old(self).ready_of(q).union(old(self).prefill_of(q).intersect(old(self).disposed_by(Priority::of_user(task.configuration.user_priority)).to_set()))
                    .union(if q == task.resource_rq_id { VSet::<TaskId>::empty().insert(task.id) } else { VSet::<TaskId>::empty() }),
    { unimplemented!() }
    #[verifier::external_body]
    fn add_ready_task__pc(&mut self, task: &Task, retracted: &mut Vec<TaskId>)
        ensures
            (task.resource_rq_id.0 as nat) < old(self).n(),
            final(self).n() == old(self).n(),
            final(retracted)@ == old(retracted)@ + old(self).disposed_by(Priority::of_user(task.configuration.user_priority)),
            old(self).disposed_by(Priority::of_user(task.configuration.user_priority)).no_duplicates(),
            forall|x: TaskId| old(self).disposed_by(Priority::of_user(task.configuration.user_priority)).contains(x)
                ==> exists|q: ResourceRqId| #[trigger] old(self).prefill_of(q).contains(x),
            forall|q: ResourceRqId| #[trigger] final(self).prefill_of(q)
                == old(self).prefill_of(q).difference(old(self).disposed_by(Priority::of_user(task.configuration.user_priority)).to_set()),
            forall|q: ResourceRqId| #[trigger] final(self).ready_of(q)
                == old(self).ready_of(q).union(old(self).prefill_of(q).intersect(old(self).disposed_by(Priority::of_user(task.configuration.user_priority)).to_set()))
                    .union(if q == task.resource_rq_id { VSet::<TaskId>::empty().insert(task.id) } else { VSet::<TaskId>::empty() }),
    { unimplemented!() }
}

// ---- SchedulerState / Core (opaque irrelevant fields)
#[verifier::external_body]
pub struct GapCache {}
#[verifier::external_body]
pub struct SchedulerConfig {}
//@ extract struct SchedulerState file=crates/tako/src/internal/scheduler/state.rs
#[verifier::external_body]
pub struct GlobalResourceMapping {}
impl GlobalResourceMapping {
    pub uninterp spec fn rq_map(&self) -> ResourceRqMap;
    #[verifier::external_body]
    fn get_resource_rq_map(&self) -> (r: &ResourceRqMap) ensures *r == self.rq_map() { unimplemented!() }
}
#[verifier::external_body]
pub struct WorkerGroupsMap {}
#[verifier::external_body]
pub struct OpaqueSecretKey {}
#[verifier::external_body]
pub struct OpaqueConnHandler {}
//@ extract struct Core file=crates/tako/src/internal/server/core.rs field_types=worker_groups:WorkerGroupsMap,secret_key:OpaqueSecretKey,custom_conn_handler:OpaqueConnHandler
//@ extract struct CoreSplitMut file=crates/tako/src/internal/server/core.rs field_types=worker_groups:&'a~mut~WorkerGroupsMap

// N8e helper: a snapshot of the task ids (TaskMap::tasks_mut() visits every stored task exactly once)
#[verifier::external_body]
fn hq_task_ids(tm: &TaskMap) -> (r: Vec<TaskId>)
    ensures
        r@.no_duplicates(),
        forall|t: TaskId| r@.contains(t) <==> tm.tasks@.contains_key(t),
{ unimplemented!() }

// Core::remove_worker (core.rs): also updates the worker groups (String-keyed map; not relevant here). ASSUMED contract.
//@ extract sig Core::remove_worker file=crates/tako/src/internal/server/core.rs arity=2
impl Core {
    #[verifier::external_body]
    fn remove_worker(&mut self, worker_id: WorkerId) -> (r: Worker)
        ensures
            old(self).workers.workers@.contains_key(worker_id), r == old(self).workers.workers@[worker_id],
            final(self).workers.workers@ == old(self).workers.workers@.remove(worker_id),
            final(self).tasks == old(self).tasks, final(self).task_queues == old(self).task_queues, final(self).scheduler_state == old(self).scheduler_state,
            final(self).resource_map == old(self).resource_map, final(self).worker_id_counter == old(self).worker_id_counter,
    { unimplemented!() }
}
// Core::new_worker (core.rs): registers the worker in its group (String-keyed map; not relevant here) and stores it under its id. ASSUMED contract.
//@ extract sig Core::new_worker file=crates/tako/src/internal/server/core.rs arity=2
impl Core {
    #[verifier::external_body]
    fn new_worker(&mut self, worker: Worker)
        ensures
            final(self).workers.workers@ == old(self).workers.workers@.insert(worker.id, worker),
            final(self).tasks == old(self).tasks, final(self).task_queues == old(self).task_queues, final(self).scheduler_state == old(self).scheduler_state,
            final(self).resource_map == old(self).resource_map, final(self).worker_id_counter == old(self).worker_id_counter,
    { unimplemented!() }
}
impl WorkerResources {
    // the per-resource totals as sent to other workers (opaque here)
    #[verifier::external_body]
    fn to_transport(&self) -> (r: WorkerResourceCounts) { unimplemented!() }
}
//@ extract sig WorkerResources::to_transport file=crates/tako/src/internal/server/workerload.rs arity=1
//@ extract fn Worker::assignment file=crates/tako/src/internal/server/worker.rs
    ensures *r == self.assignment,
//@ end

// ===== prelude/crypto.rs — ideal-AEAD stand-ins for orion (trusted; the cryptographic assumption of C20) =====
// Roles are `&'static str` / `Cow<'static, str>` in the real code; here an opaque, comparable token (N2: no property
// depends on the text of a role, only on equality and on the bytes that are sealed).
#[derive(Clone, Copy, PartialEq, Eq, Structural)]
pub struct RoleStr(pub u64);
pub uninterp spec fn role_bytes(r: RoleStr) -> Seq<u8>;
#[verifier::external_body]
pub proof fn axiom_role_bytes_injective(a: RoleStr, b: RoleStr) ensures role_bytes(a) == role_bytes(b) ==> a == b {}
impl RoleStr {
    #[verifier::external_body]
    fn as_bytes(&self) -> (r: &[u8]) ensures r@ == role_bytes(*self) { unimplemented!() }
}
pub struct Cow {}
impl Cow {
    fn Borrowed(r: RoleStr) -> (c: RoleStr) ensures c == r { r }
}

#[verifier::external_body]
pub struct SecretKey {}
impl SecretKey { pub uninterp spec fn kid(&self) -> int; }      // identity of the key material
#[verifier::external_body]
#[verifier::reject_recursive_types(T)]
pub struct Arc<T> { t: std::marker::PhantomData<T> }
impl<T> Arc<T> { pub uninterp spec fn inner(&self) -> T; }
impl Arc<SecretKey> {
    #[verifier::external_body]
    fn deref_key(&self) -> (r: &SecretKey) ensures *r == self.inner() { unimplemented!() }
}
#[verifier::external_body]
pub struct CryptoError {}
#[derive(Clone, Copy, PartialEq, Eq, Structural)]
pub enum StreamTag { Message, Push, Rekey, Finish }
#[verifier::external_body]
pub struct Nonce {}
impl Nonce {
    pub uninterp spec fn bytes(&self) -> Seq<u8>;
    #[verifier::external_body]
    fn from_slice(s: &[u8]) -> (r: Result<Nonce, CryptoError>) ensures r is Ok ==> r->Ok_0.bytes() == s@ { unimplemented!() }
    #[verifier::external_body]
    fn as_ref(&self) -> (r: &[u8]) ensures r@ == self.bytes() { unimplemented!() }
}
// "ct is an authentic sealing of (msg, tag) under key k with stream nonce n, produced by a holder of k"
pub uninterp spec fn sealed(k: int, n: Seq<u8>, msg: Seq<u8>, tag: StreamTag, ct: Seq<u8>) -> bool;
#[verifier::external_body]
pub struct StreamSealer {}
impl StreamSealer {
    pub uninterp spec fn k(&self) -> int;
    pub uninterp spec fn n(&self) -> Seq<u8>;
    #[verifier::external_body]
    fn new(key: &Arc<SecretKey>) -> (r: Result<(StreamSealer, Nonce), CryptoError>)
        ensures r is Ok ==> r->Ok_0.0.k() == key.inner().kid() && r->Ok_0.0.n() == r->Ok_0.1.bytes()
    { unimplemented!() }
    #[verifier::external_body]
    fn seal_chunk(&mut self, plaintext: &[u8], tag: &StreamTag) -> (r: Result<Vec<u8>, CryptoError>)
        ensures r is Ok ==> sealed(old(self).k(), old(self).n(), plaintext@, *tag, r->Ok_0@), final(self).k() == old(self).k()
    { unimplemented!() }
}
#[verifier::external_body]
pub struct StreamOpener {}
impl StreamOpener {
    pub uninterp spec fn k(&self) -> int;
    pub uninterp spec fn n(&self) -> Seq<u8>;
    #[verifier::external_body]
    fn new(key: &Arc<SecretKey>, nonce: &Nonce) -> (r: Result<StreamOpener, CryptoError>)
        ensures r is Ok ==> r->Ok_0.k() == key.inner().kid() && r->Ok_0.n() == nonce.bytes()
    { unimplemented!() }
    // INT-CTXT idealisation: only authentic ciphertexts open, and they open to what was sealed
    #[verifier::external_body]
    fn open_chunk(&mut self, ciphertext: &[u8]) -> (r: Result<(Vec<u8>, StreamTag), CryptoError>)
        ensures r is Ok ==> sealed(old(self).k(), old(self).n(), r->Ok_0.0@, r->Ok_0.1, ciphertext@)
    { unimplemented!() }
}
#[verifier::external_body]
fn secure_rand_bytes(dst: &mut Vec<u8>) -> (r: Result<(), CryptoError>)
    ensures final(dst)@.len() == old(dst)@.len()
{ unimplemented!() }

// tako's error type (messages are opaque, N15); `?` converts &str / String into it
pub enum DsError { AuthenticationRejected(String), GenericError(String), Other }
#[verifier::external_body]
fn hq_err_from_str(s: &str) -> DsError { unimplemented!() }
impl<'a> From<&'a str> for DsError {
    #[verifier::external_body]
    fn from(s: &'a str) -> (r: DsError) { unimplemented!() }
}
#[verifier::external_body]
fn hq_bytes_to_vec(s: &[u8]) -> (r: Vec<u8>) ensures r@ == s@ { unimplemented!() }

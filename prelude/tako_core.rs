// ===== prelude/tako_core.rs — StableMap stand-in shared by the tako server and worker units (trusted; N2, N12) =====

// ---- StableMap<K, V> (internal/common/stablemap.rs): a key->value map whose values know their key.
// Stand-in: abstract map with the same method names; `insert` panics on a duplicate key (as the real one).
trait ExtractKey<K> { spec fn spec_key(&self) -> K; }

#[verifier::external_body]
#[verifier::reject_recursive_types(K)]
#[verifier::accept_recursive_types(V)]
pub struct StableMap<K, V> { k: std::marker::PhantomData<K>, v: std::marker::PhantomData<V> }
impl<K, V> View for StableMap<K, V> {
    type V = VMap<K, V>;
    uninterp spec fn view(&self) -> VMap<K, V>;
}
impl<V: ExtractKey<TaskId>> StableMap<TaskId, V> {
    #[verifier::external_body]
    fn find(&self, k: &TaskId) -> (r: Option<&V>)
        ensures r == (if self@.contains_key(*k) { Some(&self@[*k]) } else { None::<&V> })
    { unimplemented!() }
    #[verifier::external_body]
    fn find_mut(&mut self, k: &TaskId) -> (r: Option<&mut V>)
        ensures match r {
            Some(v) => old(self)@.contains_key(*k) && *v == old(self)@[*k] && final(self)@ == old(self)@.insert(*k, *final(v)),
            None => !old(self)@.contains_key(*k) && final(self)@ == old(self)@,
        }
    { unimplemented!() }
    #[verifier::external_body]
    fn insert(&mut self, v: V)
        requires !old(self)@.contains_key(v.spec_key())
        ensures final(self)@ == old(self)@.insert(v.spec_key(), v)
    { unimplemented!() }
    // diverge-mode twin (N14): the duplicate-key assert of the real insert aborts the handler
    #[verifier::external_body]
    fn insert__pc(&mut self, v: V)
        ensures !old(self)@.contains_key(v.spec_key()), final(self)@ == old(self)@.insert(v.spec_key(), v)
    { unimplemented!() }
    #[verifier::external_body]
    fn remove(&mut self, k: &TaskId) -> (r: Option<V>)
        ensures
            r == (if old(self)@.contains_key(*k) { Some(old(self)@[*k]) } else { None::<V> }),
            final(self)@ == old(self)@.remove(*k)
    { unimplemented!() }
    #[verifier::external_body]
    fn len(&self) -> (r: usize) ensures r == self@.dom().len() { unimplemented!() }
    #[verifier::external_body]
    fn is_empty(&self) -> (r: bool) ensures r == (self@.dom().len() == 0) { unimplemented!() }
}

// ===== prelude/time.rs — std::time stand-ins (trusted; N2). Time is a mathematical integer (ns) within the representable range
// [0, instant_max()]. `Instant + Duration` panics in std when the sum is not representable: that is its precondition here (`add_req`),
// so every use of the operator in obligation-mode code has to establish it (this assumption used to be "does not overflow, listed" -
// and hid F31); `checked_add` is the total version. =====
#[verifier::external_body]
#[derive(Clone, Copy)]
pub struct Instant { i: u64 }
#[verifier::external_body]
#[derive(Clone, Copy)]
pub struct Duration { d: u64 }

mod hq_time_axioms {
    use super::*;
    pub uninterp spec fn instant_max() -> int;
    pub uninterp spec fn inst_t(i: Instant) -> int;
    pub broadcast axiom fn axiom_instant_range(i: Instant)
        ensures 0 <= #[trigger] inst_t(i) <= instant_max();
}
use hq_time_axioms::instant_max;
//@ broadcast: hq_time_axioms::axiom_instant_range
impl Instant {
    pub open spec fn t(&self) -> int { hq_time_axioms::inst_t(*self) }
    #[verifier::external_body]
    fn checked_add(&self, duration: Duration) -> (r: Option<Instant>)
        ensures r is Some <==> self.t() + duration.d() <= instant_max(), r is Some ==> r->Some_0.t() == self.t() + duration.d()
    { unimplemented!() }
    // ASSUMED (listed): a reading of the clock is at least an hour away from the end of the representable time
    #[verifier::external_body]
    fn now() -> (r: Instant) ensures r.t() + 3_600_000_000_000 <= instant_max() { unimplemented!() }
    #[verifier::external_body]
    fn checked_duration_since(&self, earlier: Instant) -> (r: Option<Duration>)
        ensures r is Some <==> self.t() >= earlier.t(), r is Some ==> r->Some_0.d() == self.t() - earlier.t()
    { unimplemented!() }
}
impl Duration {
    pub uninterp spec fn d(&self) -> nat;
    #[verifier::external_body]
    fn default() -> (r: Duration) ensures r.d() == 0 { unimplemented!() }
    #[verifier::external_body]
    fn from_secs(s: u64) -> (r: Duration) ensures r.d() == s * 1_000_000_000 { unimplemented!() }
    #[verifier::external_body]
    fn as_secs(&self) -> (r: u64) ensures r == self.d() / 1_000_000_000 { unimplemented!() }
    #[verifier::external_body]
    fn saturating_sub(self, rhs: Duration) -> (r: Duration)
        ensures r.d() == (if self.d() >= rhs.d() { self.d() - rhs.d() } else { 0 })
    { unimplemented!() }
}
// `Duration - Duration` panics in std when the result would be negative: that is its precondition here
impl std::ops::Sub<Duration> for Duration {
    type Output = Duration;
    #[verifier::external_body]
    fn sub(self, rhs: Duration) -> (r: Duration)
        ensures r.d() == self.d() - rhs.d()
    { unimplemented!() }
}
impl vstd::std_specs::ops::SubSpecImpl<Duration> for Duration {
    open spec fn obeys_sub_spec() -> bool { false }
    open spec fn sub_req(self, rhs: Duration) -> bool { self.d() >= rhs.d() }
    uninterp spec fn sub_spec(self, rhs: Duration) -> Duration;
}


impl std::ops::Add<Duration> for Instant {
    type Output = Instant;
    #[verifier::external_body]
    fn add(self, rhs: Duration) -> (r: Instant)
        ensures r.t() == self.t() + rhs.d()
    { unimplemented!() }
}
impl vstd::std_specs::ops::AddSpecImpl<Duration> for Instant {
    open spec fn obeys_add_spec() -> bool { false }
    open spec fn add_req(self, rhs: Duration) -> bool { self.t() + rhs.d() <= instant_max() }
    uninterp spec fn add_spec(self, rhs: Duration) -> Instant;
}
impl std::ops::Sub<Instant> for Instant {
    type Output = Duration;
    #[verifier::external_body]
    fn sub(self, rhs: Instant) -> (r: Duration)
        ensures r.d() == (if self.t() >= rhs.t() { self.t() - rhs.t() } else { 0 })
    { unimplemented!() }
}
impl vstd::std_specs::ops::SubSpecImpl<Instant> for Instant {
    open spec fn obeys_sub_spec() -> bool { false }
    open spec fn sub_req(self, rhs: Instant) -> bool { true }
    uninterp spec fn sub_spec(self, rhs: Instant) -> Duration;
}
impl PartialEq for Instant {
    #[verifier::external_body]
    fn eq(&self, other: &Self) -> (r: bool) ensures r == (self.t() == other.t()) { self.i == other.i }
}
impl PartialOrd for Instant {
    #[verifier::external_body]
    fn partial_cmp(&self, other: &Self) -> (r: Option<Ordering>)
    { self.i.partial_cmp(&other.i) }
}
impl vstd::std_specs::cmp::PartialOrdSpecImpl for Instant {
    open spec fn obeys_partial_cmp_spec() -> bool { true }
    open spec fn partial_cmp_spec(&self, other: &Self) -> Option<Ordering> {
        if self.t() < other.t() { Some(Ordering::Less) } else if self.t() == other.t() { Some(Ordering::Equal) } else { Some(Ordering::Greater) }
    }
}
impl PartialEq for Duration {
    #[verifier::external_body]
    fn eq(&self, other: &Self) -> (r: bool) ensures r == (self.d() == other.d()) { self.d == other.d }
}
impl PartialOrd for Duration {
    #[verifier::external_body]
    fn partial_cmp(&self, other: &Self) -> (r: Option<Ordering>)
    { self.d.partial_cmp(&other.d) }
}
impl vstd::std_specs::cmp::PartialOrdSpecImpl for Duration {
    open spec fn obeys_partial_cmp_spec() -> bool { true }
    open spec fn partial_cmp_spec(&self, other: &Self) -> Option<Ordering> {
        if self.d() < other.d() { Some(Ordering::Less) } else if self.d() == other.d() { Some(Ordering::Equal) } else { Some(Ordering::Greater) }
    }
}
// `Duration * u32` panics in std when the product is not representable (its precondition here, `mul_req`); `saturating_mul` is the
// total version. The largest representable duration is an uninterpreted bound.
pub uninterp spec fn hq_dur_max() -> nat;
impl Duration {
    #[verifier::external_body]
    fn saturating_mul(self, rhs: u32) -> (r: Duration)
        ensures r.d() as int == (if self.d() * rhs <= hq_dur_max() { self.d() * rhs } else { hq_dur_max() as int })
    { unimplemented!() }
}
impl std::ops::Mul<u32> for Duration {
    type Output = Duration;
    #[verifier::external_body]
    fn mul(self, rhs: u32) -> (r: Duration)
        ensures r.d() == self.d() * rhs
    { unimplemented!() }
}
impl vstd::std_specs::ops::MulSpecImpl<u32> for Duration {
    open spec fn obeys_mul_spec() -> bool { false }
    open spec fn mul_req(self, rhs: u32) -> bool { self.d() * rhs <= hq_dur_max() }
    uninterp spec fn mul_spec(self, rhs: u32) -> Duration;
}
